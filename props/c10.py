"""C10 - SMC particles are properly weighted; the evidence estimate is unbiased.

Pipelines are histories of SMC moves (init with/without proposal, extend with/without proposal,
resample, rejuvenate, change, rejuvenation_smc end-to-end).
 * machine (SCRIPTED, reference-sampled scripts, generated chain models): after every move particle
   i's log weight equals the reference's log p(choices, observations) - log q(choices) accumulated
   along its ancestry, rejuvenation leaves weights and the running estimate bit-identical, the
   particle count is constant, every lane is a coherent trace.
 * tree (SCRIPTED outcome tree, discrete HMM step model with feedback, N in {1,2,3}, T <= 3): after
   every move sum_scripts P * exp(lml) == brute-force evidence and sum P * exp(lml) * estimate(h) ==
   the unnormalised posterior integral of h.
 * stat (REAL): rejuvenation_smc end-to-end with mh rejuvenation, mean of exp(lml) over key batches
   vs the evidence (two-stage z-test).
"""
import copy
import math
import numpy as np
from sim import world, progs, ref, gfi, selections, otree
from sim.gfi import V
from sim.scripted import run_scripted
import jax
import jax.numpy as jnp
import jax.tree_util as jtu
from genjax import const, gen, categorical, pjax as gpjax
from genjax.inference import mh
from genjax.inference.smc import init, extend, resample, rejuvenate, change, rejuvenation_smc
from genjax.extras import discrete_hmm
from props.c20 import stoch, hmm_joint, hmm_brute

PROP = "C10"


def gen_case(rng, tier):
    mode = rng.choice(["machine", "machine", "machine", "tree", "tree", "tree_rsmc", "stat"])
    if mode == "machine":
        c = gfi.gen_model_case(rng, tier, depth=rng.choice([0, 1, 1]), max_blocks=2)
        paths = ref.model_paths(c["model"])
        n = rng.randint(1, 4)
        moves = [{"m": "init", "paths": [list(p) for p in gfi.pick_subset(rng, paths, rng.choice(["some", "one", "all", "none"]))],
                  "rseed": rng.randint(0, 2**30)}]
        moves[0]["prop"] = pick_proposal(rng, c["model"], moves[0]["paths"])
        if rng.random() < 0.4:
            # a pilot run of the same init (same model / proposal objects) with another particle count
            moves[0]["pilot"] = rng.choice([k for k in (1, 2, 3, 5, 6) if k != n])
        for _ in range(rng.randint(1, 4 if tier == "quick" else 7)):
            k = rng.choice(["extend", "extend", "resample", "rejuvenate", "change"])
            mv = {"m": k, "rseed": rng.randint(0, 2**30)}
            if k == "extend":
                mv["hs"] = [round(rng.uniform(-1, 1), 3) for _ in range(n)]
                mv["paths"] = [list(p) for p in gfi.pick_subset(rng, paths, rng.choice(["some", "one", "all"]))]
                mv["prop"] = pick_proposal(rng, c["model"], mv["paths"])
            elif k == "resample":
                mv["method"] = rng.choice(["categorical", "systematic"])
            elif k == "rejuvenate":
                mv["sel"] = selections.gen_sel(rng, paths, depth=0)
            elif k == "change":
                mv["h"] = round(rng.uniform(-1, 1), 3)
            moves.append(mv)
        c.update({"mode": mode, "n": n, "moves": moves, "sseed": rng.randint(0, 2**30)})
        return c
    K, M = 2, 2
    T = rng.randint(1, 3)
    n = rng.choice([1, 2, 2, 3])
    sparse = rng.random() < 0.2
    # zeros in the emission table give particles of weight exactly 0 (log weight -inf) next to live ones
    sparse_e = mode != "stat" and rng.random() < 0.35
    c = {"mode": mode, "K": K, "M": M, "T": T, "n": n, "init": stoch(rng, 1, K, False)[0], "trans": stoch(rng, K, K, sparse),
         "emis": stoch(rng, K, M, sparse_e), "obs": [rng.randrange(M) for _ in range(T)],
         "proposal": rng.choice([None, None, "custom"]), "qprobs": stoch(rng, M, K, False),
         "resample_at": [t for t in range(T) if rng.random() < 0.5], "key": rng.randint(0, 2**30),
         "batch": 6000 if tier == "quick" else 20000, "leaf_budget": 600 if tier == "quick" else 6000}
    if mode == "tree_rsmc":
        # rejuvenation_smc end-to-end (no kernel): the ESS-triggered resampling is a branch of the schedule
        c["n"] = rng.choice([1, 2, 2])
        c["T"] = rng.randint(1, 3)
        if tier == "thorough" and rng.random() < 0.4:
            # the ESS trigger (ess < N // 2) can only fire for N >= 4: one observation keeps the tree at 16 * 256 leaves
            c["n"], c["T"] = 4, 1
        c["obs"] = [rng.randrange(M) for _ in range(c["T"])]
        c["proposal"] = rng.choice([None, None, "custom"])
    if mode == "stat":
        c["T"] = 3
        c["obs"] = [rng.randrange(M) for _ in range(3)]
        c["n"] = rng.choice([2, 3, 4])
        c["rejuv"] = rng.random() < 0.6
    return c


# ------------------------------------------------------------------ custom proposals over a subset of the unobserved addresses

# proposal distribution per model distribution (same support), as (reference dist name, parameters)
QDIST = {"normal": ("normal", (0.2, 1.3)), "normal_s": ("normal", (0.2, 1.3)), "laplace": ("normal", (-0.1, 1.6)),
         "exponential": ("exponential", (0.8,)), "gamma": ("exponential", (0.8,)), "beta": ("beta", (1.5, 1.5)),
         "flip": ("flip", (0.4,)), "bernoulli": ("bernoulli", (0.3,)), "categorical": ("categorical", ([0.1, 0.0, -0.2],)),
         "poisson": ("poisson", (2.0,))}


def pick_proposal(rng, model, cons_paths):
    """Top-level site addresses (not constrained) that a custom proposal will propose; possibly a strict
    subset of the unobserved addresses (generate fills the rest from the prior at weight 0)."""
    if rng.random() < 0.5:
        return []
    cons = {tuple(p) for p in cons_paths}
    cands = [b["a"] for b in model["blocks"] if b["k"] == "site" and b["d"] in QDIST and (b["a"],) not in cons]
    if not cands:
        return []
    return sorted(rng.sample(cands, rng.randint(1, len(cands))))


def make_proposal(model, addrs, extend_form):
    import genjax

    dists = {b["a"]: b["d"] for b in model["blocks"] if b["k"] == "site"}

    def body():
        for a in addrs:
            qn, qp = QDIST[dists[a]]
            d = getattr(genjax, qn)
            d(*[jnp.asarray(x, dtype=jnp.float32) for x in qp]) @ a

    if extend_form:
        @gen
        def prop(constraints, old_choices, h):
            body()
    else:
        @gen
        def prop(constraints, h):
            body()
    return prop


def q_logp(model, addrs, choices):
    dists = {b["a"]: b["d"] for b in model["blocks"] if b["k"] == "site"}
    tot = 0.0
    for a in addrs:
        qn, qp = QDIST[dists[a]]
        tot += ref.logpdf(qn, choices[a], *[np.asarray(x, dtype=np.float64) for x in qp])
    return tot


# ------------------------------------------------------------------ machine mode


def lane(tree, i):
    return jtu.tree_map(lambda x: x[i], tree)


def lse(w):
    w = np.asarray(w, dtype=np.float64)
    m = np.max(w)
    if not np.isfinite(m):
        return -math.inf
    return float(m + math.log(np.sum(np.exp(w - m))))


def run_machine(case, viol, probes):
    model, n = case["model"], case["n"]
    gf = progs.build(model)
    script = gfi.RefScript(case["sseed"])
    sig = dict(mode="machine", combinators="+".join(progs.combinators(model)))
    hs = [case["h"]] * n
    w_ref = None
    lme_ref = 0.0
    parts = None
    evals = 0
    for mv in case["moves"]:
        k = mv["m"]
        if w_ref is not None and not np.isfinite(lse(w_ref)):
            # every particle has weight 0 (e.g. `change` moved an observed uniform's support away): the collection is
            # dead, its resampling probabilities are NaN and nothing after this point is defined - the history ends
            probes["dead_collection"] = 1
            break
        sig["move"] = k
        probes["move_" + k] = probes.get("move_" + k, 0) + 1
        if k == "init":
            rr = ref.run(model, case["h"], None, rng=np.random.default_rng(mv["rseed"]))
            cons = ref.subset(rr.choices, [tuple(p) for p in mv["paths"]])
            cp = {tuple(p) for p in mv["paths"]}
            pa = mv.get("prop") or []
            pgf = make_proposal(model, pa, False) if pa else None
            if pa:
                probes["custom_proposal"] = probes.get("custom_proposal", 0) + 1
                if len(pa) + len(cp) < len(ref.model_paths(model)):
                    probes["partial_proposal"] = probes.get("partial_proposal", 0) + 1
            if mv.get("pilot"):
                probes["pilot_init"] = 1
                run_scripted(lambda: init(gf, (case["h"],), const(mv["pilot"]), gfi.to_jnp(cons), pgf), gfi.RefScript(case["sseed"] + 5))
            parts, _ = run_scripted(lambda: init(gf, (case["h"],), const(n), gfi.to_jnp(cons), pgf), script)
            if np.shape(parts.log_weights) != (n,):
                viol.append(V("wrong_count", "particle_count_constant",
                              f"init with {n} particles returned log_weights of shape {np.shape(parts.log_weights)}", **sig))
                return evals
            w_ref = np.zeros(n)
            for i in range(n):
                chi = gfi.np_choices(lane(parts.traces, i))
                r = ref.run(model, case["h"], chi)
                w_ref[i] = sum(s["logp"] for s in r.sites if s["live"] and (tuple(s["path"]) in cp or tuple(s["path"]) in {(a,) for a in pa}))
                w_ref[i] -= q_logp(model, pa, chi)
        elif k == "extend":
            rr = ref.run(model, mv["hs"][0], None, rng=np.random.default_rng(mv["rseed"]))
            cons = ref.subset(rr.choices, [tuple(p) for p in mv["paths"]])
            cp = {tuple(p) for p in mv["paths"]}
            hs = list(mv["hs"])
            pa = [a for a in (mv.get("prop") or []) if (a,) not in cp]
            pgf = make_proposal(model, pa, True) if pa else None
            if pa:
                probes["custom_proposal"] = probes.get("custom_proposal", 0) + 1
                if len(pa) + len(cp) < len(ref.model_paths(model)):
                    probes["partial_proposal"] = probes.get("partial_proposal", 0) + 1
            parts, _ = run_scripted(lambda p: extend(p, gf, jnp.asarray(hs, dtype=jnp.float32), gfi.to_jnp(cons), pgf), script, parts)
            for i in range(n):
                chi = gfi.np_choices(lane(parts.traces, i))
                r = ref.run(model, hs[i], chi)
                w_ref[i] += sum(s["logp"] for s in r.sites if s["live"] and (tuple(s["path"]) in cp or tuple(s["path"]) in {(a,) for a in pa}))
                w_ref[i] -= q_logp(model, pa, chi)
        elif k == "resample":
            before = parts
            parts, _ = run_scripted(lambda p: resample(p, method=mv["method"]), script, parts)
            if np.isfinite(lse(w_ref)):
                lme_ref += lse(w_ref) - math.log(n)
            # ancestry: which source each output particle copies
            new_hs = []
            for j in range(n):
                src = [i for i in range(n) if world.bit_equal(lane(parts.traces, j), lane(before.traces, i))]
                if not src:
                    viol.append(V("unfaithful_copy", "resampled_particle_is_copy", f"output particle {j} copies no input particle", **sig))
                    return evals
                new_hs.append(hs[src[0]])
            hs = new_hs
            w_ref = np.zeros(n)
        elif k == "rejuvenate":
            so = selections.build(mv["sel"])
            before = parts
            parts, _ = run_scripted(lambda p: rejuvenate(p, lambda t: mh(t, so)), script, parts)
            if not world.bit_equal(parts.log_weights, before.log_weights) or \
                    not world.bit_equal(parts.log_marginal_estimate, before.log_marginal_estimate):
                viol.append(V("weights_touched", "rejuvenation_leaves_weights_untouched",
                              f"log_weights {world.to_py(before.log_weights)} -> {world.to_py(parts.log_weights)}", **sig))
                return evals
        elif k == "change":
            hnew = mv["h"]
            parts, _ = run_scripted(lambda p: change(p, gf, (hnew,), lambda x: x), script, parts)
            hs = [hnew] * n
            for i in range(n):
                r = ref.run(model, hnew, gfi.np_choices(lane(parts.traces, i)))
                w_ref[i] += r.logp
        evals += 1
        # ---- invariants after every move
        if int(parts.n_samples.value) != n or np.shape(parts.log_weights) != (n,):
            viol.append(V("wrong_count", "particle_count_constant", f"n_samples={parts.n_samples.value}, weights {np.shape(parts.log_weights)}", **sig))
            return evals
        if np.any(np.isnan(w_ref)) or not np.all(np.isfinite(w_ref) | (w_ref == -np.inf)):
            probes["left_support"] = 1
            return evals
        for i in range(n):
            vs, r = gfi.coherence(lane(parts.traces, i), model, hs[i], f"particle {i} after {k}")
            if vs:
                viol += gfi.convert(vs, **sig)
                return evals
        got = np.asarray(parts.log_weights, dtype=np.float64)
        if not world.close(got, w_ref, **gfi.TOL):
            viol.append(V("improper_weight", "log_weight_is_log_p_minus_log_q",
                          f"after {k}: log_weights {got.tolist()} but reference log p(choices, obs) - log q(choices) along the "
                          f"ancestry {w_ref.tolist()}", **sig))
            return evals
        if not world.close(float(parts.log_marginal_estimate), lme_ref, **gfi.TOL):
            viol.append(V("improper_weight", "running_estimate_accumulates_average_weight",
                          f"after {k}: log_marginal_estimate {float(parts.log_marginal_estimate)} vs reference {lme_ref}", **sig))
            return evals
        want_lml = lme_ref + lse(w_ref) - math.log(n)
        if np.isfinite(want_lml) and not world.close(float(parts.log_marginal_likelihood()), want_lml, **gfi.TOL):
            viol.append(V("improper_weight", "lml_is_estimate_plus_mean_weight",
                          f"after {k}: lml {float(parts.log_marginal_likelihood())} vs {want_lml}", **sig))
            return evals
    return evals


# ------------------------------------------------------------------ tree / stat modes on the discrete HMM step model


def hmm_args(case):
    return (jnp.asarray(case["init"], dtype=jnp.float32), jnp.asarray(case["trans"], dtype=jnp.float32),
            jnp.asarray(case["emis"], dtype=jnp.float32))


def make_proposals(case):
    q = jnp.log(jnp.asarray(case["qprobs"], dtype=jnp.float32))

    @gen
    def init_prop(constraints, prev_state, t, ini, trans, emis):
        return categorical(q[constraints["obs"]]) @ "state"

    @gen
    def ext_prop(constraints, old_choices, prev_state, t, ini, trans, emis):
        return categorical(q[constraints["obs"]]) @ "state"

    return init_prop, ext_prop


def pipeline(case):
    ini, trans, emis = hmm_args(case)
    n, T = case["n"], case["T"]
    ip, ep = make_proposals(case) if case["proposal"] else (None, None)

    def run():
        outs = []
        args0 = (jnp.array(0), jnp.array(0), ini, trans, emis)
        p = init(discrete_hmm, args0, const(n), {"obs": jnp.asarray(case["obs"][0])}, ip)
        outs.append((p.log_marginal_likelihood(), p.estimate(lambda ch: (ch["state"] == 1).astype(jnp.float32))))
        for t in range(1, T):
            if (t - 1) in case["resample_at"]:
                p = resample(p, method="categorical")
            p = extend(p, discrete_hmm, p.traces.get_retval(), {"obs": jnp.asarray(case["obs"][t])}, ep)
            outs.append((p.log_marginal_likelihood(), p.estimate(lambda ch: (ch["state"] == 1).astype(jnp.float32))))
        return outs

    return run


class DeadAware:
    """Outcome function for the SMC trees. When every particle has weight 0 the resampling logits are
    NaN or all -inf: the collection is dead, its evidence mass is 0 whatever index is drawn, so one
    arbitrary outcome is explored with probability 1 - and the leaf must then report lml = -inf from that
    point on (checked by the caller through .dead_from)."""

    def __init__(self):
        self.nan_sites = 0

    def reset(self):
        self.nan_sites = 0

    def __call__(self, site):
        args = [np.asarray(a, dtype=np.float64) for a in site["args"]] + [np.asarray(v, dtype=np.float64) for v in site["kwargs"].values()]
        if any(np.isnan(a).any() or (a.size and np.all(np.isneginf(a))) for a in args):
            self.nan_sites += 1
            return [np.zeros(tuple(site["shape"]), dtype=np.dtype(site["dtype"]))], [1.0]
        return otree.discrete_outcomes(site, max_joint=300)


def run_tree(case, viol, probes):
    sig = dict(mode="tree", n=case["n"], T=case["T"], proposal=bool(case["proposal"]))
    T = case["T"]
    run = pipeline(case)
    acc_z = np.zeros(T)
    acc_h = np.zeros(T)
    tot = 0.0
    leaves = 0
    oc = DeadAware()

    def run_reset(s):
        oc.reset()
        return run_scripted(run, s)[0]

    for outs, P, path in otree.explore(run_reset, outcomes=oc, max_leaves=case["leaf_budget"]):
        leaves += 1
        tot += P
        if oc.nan_sites:
            probes["dead_collection"] = 1
            if np.isfinite(float(outs[-1][0])):
                viol.append(V("undefined", "nan_resampling_weights_only_when_all_particles_dead",
                              f"a resampling site received NaN logits but the final log marginal estimate is {float(outs[-1][0])}", **sig))
                return leaves
        for t, (lml, est) in enumerate(outs):
            if float(lml) == -math.inf or (not np.isfinite(float(lml)) and oc.nan_sites):
                probes["zero_weight_path"] = 1
            z = math.exp(float(lml)) if np.isfinite(float(lml)) else 0.0
            acc_z[t] += P * z
            e = float(est)
            acc_h[t] += P * z * (e if np.isfinite(e) else 0.0)
    probes["tree_complete"] = 1
    probes["tree_leaves"] = leaves
    if not world.close(tot, 1.0, 1e-5, 1e-5):
        viol.append(V("wrong_distribution", "tree_total_probability", f"sum P = {tot}", **sig))
        return leaves
    for t in range(T):
        seqs, joint = hmm_brute(case, t + 1)
        ev = float(joint.sum())
        hint = float(sum(p for s, p in zip(seqs, joint) if s[-1] == 1))
        if not world.close(acc_z[t], ev, 3e-4, 1e-8):
            viol.append(V("biased_evidence", "expected_exp_lml_is_marginal_likelihood",
                          f"after step {t}: sum_scripts P*exp(lml) = {acc_z[t]} but the marginal likelihood of the observations is {ev}", **sig))
            return leaves
        if not world.close(acc_h[t], hint, 3e-4, 1e-8):
            viol.append(V("biased_estimate", "weighted_average_unbiased_for_unnormalised_integral",
                          f"after step {t}: sum P*exp(lml)*estimate(h) = {acc_h[t]} but the unnormalised posterior integral is {hint}", **sig))
            return leaves
    return leaves


def run_tree_rsmc(case, viol, probes):
    """rejuvenation_smc end-to-end under complete outcome trees: E[exp(lml)] after the last step and at
    every step (return_all_particles) equals the evidence, whether or not the ESS trigger resampled."""
    sig = dict(mode="tree_rsmc", n=case["n"], T=case["T"], proposal=bool(case["proposal"]))
    ini, trans, emis = hmm_args(case)
    T = case["T"]
    obs = {"obs": jnp.asarray(case["obs"])}
    args0 = (jnp.array(0), jnp.array(0), ini, trans, emis)
    _, ep = make_proposals(case) if case["proposal"] else (None, None)

    def run():
        p = rejuvenation_smc(discrete_hmm, ep, None, obs, args0, const(case["n"]), const(True))
        # per-step particle collections stacked along a leading time axis
        lw, lme = p.log_weights, p.log_marginal_estimate
        lml = lme + jax.scipy.special.logsumexp(lw, axis=1) - jnp.log(case["n"])
        return lml, lw

    acc = np.zeros(T)
    tot = 0.0
    leaves = 0
    resampled = 0
    oc = DeadAware()

    def run_reset(s):
        oc.reset()
        return run_scripted(run, s)[0]

    for (lml, lw), P, path in otree.explore(run_reset, outcomes=oc, max_leaves=case["leaf_budget"]):
        leaves += 1
        tot += P
        lml = np.asarray(lml, dtype=np.float64)
        if oc.nan_sites:
            probes["dead_collection"] = 1
            if np.isfinite(lml[-1]):
                viol.append(V("undefined", "nan_resampling_weights_only_when_all_particles_dead",
                              f"a resampling site received NaN logits but the final log marginal estimate is {lml[-1]}", **sig))
                return leaves
        if np.any(np.isneginf(np.asarray(lw, dtype=np.float64))):
            probes["zero_weight_particle"] = 1
        acc += P * np.where(np.isfinite(lml), np.exp(lml), 0.0)
        if np.any(np.all(np.asarray(lw) == 0.0, axis=1)) and case["n"] > 1:
            resampled += 1
    probes["tree_complete"] = 1
    probes["tree_leaves"] = leaves
    probes["ess_resample_taken"] = int(resampled > 0)
    probes["ess_resample_not_taken"] = int(resampled < leaves)
    if not world.close(tot, 1.0, 1e-5, 1e-5):
        viol.append(V("wrong_distribution", "tree_total_probability", f"sum P = {tot}", **sig))
        return leaves
    for t in range(T):
        seqs, joint = hmm_brute(case, t + 1)
        ev = float(joint.sum())
        if not world.close(acc[t], ev, 3e-4, 1e-8):
            viol.append(V("biased_evidence", "expected_exp_lml_is_marginal_likelihood",
                          f"rejuvenation_smc, after step {t}: sum_scripts P*exp(lml) = {acc[t]} but the marginal likelihood is {ev}", **sig))
            return leaves
    return leaves


def run_stat(case, viol, probes):
    sig = dict(mode="stat", n=case["n"], rejuv=case.get("rejuv"))
    ini, trans, emis = hmm_args(case)
    obs = {"obs": jnp.asarray(case["obs"])}
    args0 = (jnp.array(0), jnp.array(0), ini, trans, emis)
    from genjax import sel
    kern = const(lambda tr: mh(tr, sel("state"))) if case.get("rejuv") else None

    def one():
        p = rejuvenation_smc(discrete_hmm, None, kern, obs, args0, const(case["n"]))
        return p.log_marginal_likelihood()

    f = jax.jit(jax.vmap(gpjax.seed(one)))
    seqs, joint = hmm_brute(case)
    ev = float(joint.sum())
    for stage, (key, mult) in enumerate(((case["key"], 1), (case["key"] + 1, 8))):
        lml = np.asarray(f(jax.random.split(jax.random.key(key), case["batch"] * mult)), dtype=np.float64)
        z = np.exp(lml)
        zscore = (z.mean() - ev) / (z.std(ddof=1) / math.sqrt(len(z)) + 1e-300)
        probes["stat_runs"] = probes.get("stat_runs", 0) + 1
        if abs(zscore) < 5.4:
            return 1
        if stage == 0:
            probes["stage2"] = 1
            continue
        viol.append(V("biased_evidence", "expected_exp_lml_is_marginal_likelihood",
                      f"rejuvenation_smc: mean exp(lml) = {z.mean():.6g} over {len(z)} keys, evidence {ev:.6g}, z = {zscore:.1f}", **sig))
    return 2


def run_case(case):
    viol = []
    probes = {"mode_" + case["mode"]: 1, "n_%d" % case["n"]: 1}
    evals = 0
    try:
        if case["mode"] == "machine":
            evals = run_machine(case, viol, probes)
        elif case["mode"] == "tree":
            probes["proposal_custom" if case["proposal"] else "proposal_default"] = 1
            evals = run_tree(case, viol, probes)
        elif case["mode"] == "tree_rsmc":
            evals = run_tree_rsmc(case, viol, probes)
        else:
            evals = run_stat(case, viol, probes)
    except otree.TreeBudget:
        probes["tree_budget"] = 1
    except Exception as e:
        viol.append(gfi.exc_violation(e, "smc", mode=case["mode"]))
    key = case["mode"] + "|" + (progs.shape_key(case["model"]) + "|" + ",".join(m["m"] for m in case["moves"]) if case["mode"] == "machine"
                               else f"{case['n']},{case['T']},{case['proposal']},{case['resample_at']},{case['obs']}")
    return {"violations": viol, "steps": evals, "probes": probes, "faults": {}, "evals": max(evals, 1), "key": key,
            "nontrivial": case["n"] >= 2 or case["mode"] != "machine",
            "extra": {"trees_complete": probes.get("tree_complete", 0)}}


def shrink(case):
    if case["mode"] == "machine":
        for i in range(1, len(case["moves"])):
            c = copy.deepcopy(case)
            del c["moves"][i]
            yield c
        for m in gfi.shrink_model(case["model"]):
            c = copy.deepcopy(case)
            c["model"] = m
            valid = {tuple(p) for p in ref.model_paths(m)}
            for mv in c["moves"]:
                if "paths" in mv:
                    mv["paths"] = [p for p in mv["paths"] if tuple(p) in valid]
                if "sel" in mv:
                    mv["sel"] = {"t": "all"}
            yield c
        if case["n"] > 1:
            c = copy.deepcopy(case)
            c["n"] -= 1
            for mv in c["moves"]:
                if "hs" in mv:
                    mv["hs"] = mv["hs"][: c["n"]]
            yield c
    else:
        if case["T"] > 1 and case["mode"] == "tree":
            c = copy.deepcopy(case)
            c["T"] -= 1
            c["obs"] = c["obs"][: c["T"]]
            yield c
        if case["n"] > 1:
            c = copy.deepcopy(case)
            c["n"] -= 1
            yield c
        if case.get("proposal"):
            c = copy.deepcopy(case)
            c["proposal"] = None
            yield c
