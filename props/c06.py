"""C06 - a seeded function is a pure, transform-stable function of key and arguments.

Simulation: a probe client owns (f, key, args); noise clients are interleaved at operation
granularity by the seeded scheduler (unseeded sampling, other seeded runs, staging-cache
neighbours, jit compilations, failing calls of every kind, cache flushes, logical-clock
jumps, flag flips). At every probe point the result must be bit-identical to the golden
computed in a pristine interpreter and agree across eager / jit / vmap-of-keys / jit(vmap).
"""

import os
import sys
import json
import atexit
import subprocess

import numpy as np
import jax
import jax.numpy as jnp

from sim import world, pf
import genjax
from genjax import pjax as gpjax

PROP = "C06"

NOISE = ["unseeded", "unseeded_f", "seeded_other", "seeded_otherkey", "seeded_otheraval", "jit_other", "kw_neighbour", "kw_neighbour",
         "fail_assess_missing", "fail_collision", "fail_vmap_site", "fail_jit_unseeded",
         "fail_exc_site", "fail_exc_gen", "fail_arity", "flush", "ctr", "flagflip"]
FAULTS = {"fail_assess_missing": "usererr", "fail_collision": "usererr", "fail_vmap_site": "usererr",
          "fail_jit_unseeded": "usererr", "fail_arity": "usererr", "fail_exc_site": "exc@site",
          "fail_exc_gen": "exc@site", "flush": "flush", "ctr": "ctr", "flagflip": "flagflip"}


# ------------------------------------------------------------------ generation


def gen_case(rng, tier):
    depth = rng.choice([1, 1, 2] if tier == "quick" else [1, 2, 2])
    body = pf.gen_pf(rng, depth=depth, max_len=3)
    # make sure a continuous site exists so that "distinct keys give distinct draws" is testable
    if not any(st["k"] == "site" and st["d"] in pf.REAL_CONT for st in body):
        body.append({"k": "site", "d": rng.choice(pf.REAL_CONT), "mode": rng.choice(["sample", "call"])})
    nsites_py = _py_statements(body)
    faulty = rng.random() < 0.7
    nops = rng.randint(6, 14 if tier == "quick" else 24)  # probes are cheap once the function is staged
    ops = []
    cfgs = ["eager", "eager", "rebuilt", "rebuilt", "jit", "vmap"] + (["jitvmap"] if rng.random() < 0.3 else [])
    for i in range(nops):
        if rng.random() < 0.4:
            ops.append({"op": "probe", "cfg": rng.choice(cfgs)})
            continue
        if rng.random() < 0.15:
            # one persistent seed(model.generate) / seed(model.regenerate) object called with argument
            # structures that change which sites run (all / some / no addresses constrained or selected)
            ops.append({"op": "gfi_probe", "method": rng.choice(["generate", "generate", "regenerate"]),
                        "cover": rng.choice(["all", "all", "some", "none"]), "cfg": rng.choice(["eager", "eager", "jit"]),
                        "x": round(rng.uniform(-1, 1), 2)})
            continue
        kinds = NOISE if faulty else [k for k in NOISE if k not in FAULTS]
        k = rng.choice(kinds)
        op = {"op": k}
        if k in ("unseeded",):
            op["n"] = rng.randint(1, 5)
        if k in ("seeded_other", "jit_other"):
            op["pf"] = pf.gen_pf(rng, depth=1, max_len=2)
            op["key"] = rng.randint(0, 10**6)
        if k == "seeded_otherkey":
            op["key"] = rng.randint(0, 10**6)
        if k == "ctr":
            op["v"] = rng.choice([0, rng.randint(0, 10**6), 2**31 - 2])
        if k == "kw_neighbour":
            # prefer a distribution the probe itself samples through keyword parameters
            mine = _kw_dists(body)
            op["d"] = rng.choice(mine) if mine and rng.random() < 0.8 else rng.choice(list(pf.KW_ALT))
            op["alt"] = rng.randint(0, 1)
            op["key"] = rng.randint(0, 10**6)
        if k == "fail_exc_site":
            op["at"] = rng.randrange(max(nsites_py, 1))
        if k == "fail_exc_gen":
            op["method"] = rng.choice(["simulate", "generate", "assess", "update", "regenerate"])
        ops.append(op)
    ops.append({"op": "probe", "cfg": "eager"})
    return {"pf": body, "kw": rng.random() < 0.25, "key": rng.randint(0, 2**31 - 1),
            "acc0": round(rng.uniform(-1, 1), 3), "ops": ops}


def _kw_dists(body):
    out = []
    for st in body:
        if st["k"] == "site" and st.get("mode") == "kw":
            out.append(st["d"])
        for sub in ("body", "a", "b"):
            if sub in st:
                out += _kw_dists(st[sub])
    return out


def _py_statements(body):
    """Number of statements Python executes when the function is traced once (loop bodies once,
    both cond branches)."""
    n = 0
    for st in body:
        n += 1
        for sub in ("body", "a", "b"):
            if sub in st:
                n += _py_statements(st[sub])
    return n


# ------------------------------------------------------------------ golden server (pristine interpreter)

_G = {"proc": None, "served": 0}


def _golden_proc():
    if _G["proc"] is not None and (_G["served"] >= 20 or _G["proc"].poll() is not None):
        _kill_golden()
    if _G["proc"] is None:
        env = dict(os.environ)
        _G["proc"] = subprocess.Popen([sys.executable, "-m", "props.c06_golden"], stdin=subprocess.PIPE,
                                      stdout=subprocess.PIPE, stderr=subprocess.DEVNULL, text=True,
                                      cwd=os.path.dirname(os.path.dirname(os.path.abspath(__file__))), env=env)
        _G["served"] = 0
    return _G["proc"]


def _kill_golden():
    p = _G["proc"]
    _G["proc"] = None
    if p is not None:
        try:
            p.stdin.close()
        except Exception:
            pass
        try:
            p.kill()
        except Exception:
            pass


atexit.register(_kill_golden)


def golden(case):
    p = _golden_proc()
    p.stdin.write(json.dumps({"pf": case["pf"], "kw": case["kw"], "key": case["key"], "acc0": case["acc0"]}) + "\n")
    p.stdin.flush()
    line = p.stdout.readline()
    _G["served"] += 1
    if not line:
        _kill_golden()
        raise RuntimeError("golden server died")
    return json.loads(line)


def encode(tree):
    return [[str(a.dtype), list(a.shape), np.ascontiguousarray(a).tobytes().hex()] for a in world.leaves(tree)]


def decode(enc):
    return [np.frombuffer(bytes.fromhex(h), dtype=np.dtype(d)).reshape(s) for d, s, h in enc]


def call_probe(f, case, key, kw):
    if kw:
        return f(key, case["acc0"], shift=0.25)
    return f(key, case["acc0"])


# ------------------------------------------------------------------ noise operations


def _gen_models():
    from genjax import gen, normal

    @gen
    def ok(x):
        a = normal(x, 1.0) @ "a"
        b = normal(a, 1.0) @ "b"
        return a + b

    @gen
    def dup(x):
        a = normal(x, 1.0) @ "a"
        b = normal(a, 1.0) @ "a"
        return a + b

    def bad_body(x):
        a = normal(x, 1.0) @ "a"
        raise world.InjectedFault("model body fault after first site")

    return ok, dup, gen(bad_body)


def do_noise(op, case, f_plain, table):
    """Executes one noise operation. Returns (fault_kind_fired or None)."""
    from genjax import normal, sel

    k = op["op"]
    key = jax.random.key(op.get("key", 1))
    if k == "unseeded":
        for _ in range(op["n"]):
            normal.sample(0.0, 1.0)
        return None
    if k == "unseeded_f":
        try:
            pf.build_pf(case["pf"], table)(case["acc0"])
        except Exception:
            pass
        return None
    if k == "seeded_other":
        try:
            gpjax.seed(pf.build_pf(op["pf"], table))(key, 0.1)
        except Exception:
            pass
        return None
    if k == "seeded_otherkey":
        gpjax.seed(f_plain)(key, case["acc0"])
        return None
    if k == "seeded_otheraval":
        gpjax.seed(f_plain)(jax.random.key(case["key"]), 1)  # int aval: staging-cache neighbour
        return None
    if k == "jit_other":
        try:
            jax.jit(gpjax.seed(pf.build_pf(op["pf"], table)))(key, 0.1)
        except Exception:
            pass
        return None
    if k == "kw_neighbour":
        # a neighbour uses one of the probe's distributions through the *other* keyword
        # parameterisation (same shapes and dtypes): staging-cache neighbour at the sampler level
        import genjax as _g
        d = getattr(_g, op["d"])
        for alt in (op["alt"], 1 - op["alt"], op["alt"]):
            gpjax.seed(lambda a, _alt=alt: d.sample(**pf.KW_ALT[op["d"]][_alt](jnp.asarray(a, dtype=jnp.float32))))(key, case["acc0"])
        return None
    ok, dup, bad = _gen_models()
    fired = None
    try:
        if k == "fail_assess_missing":
            ok.assess({"a": 0.3}, 0.0)
        elif k == "fail_collision":
            gpjax.seed(dup.simulate)(key, 0.0)
        elif k == "fail_vmap_site":
            jax.vmap(lambda x: normal.sample(x, 1.0))(jnp.arange(3.0))
        elif k == "fail_jit_unseeded":
            jax.jit(lambda x: normal.sample(x, 1.0))(0.0)
        elif k == "fail_arity":
            gpjax.seed(f_plain)(jax.random.key(case["key"]))
        elif k == "fail_exc_site":
            g = pf.build_pf(case["pf"], table, kwargs_form=False, fault={"at": op["at"]})
            gpjax.seed(g)(jax.random.key(case["key"]), case["acc0"])
        elif k == "fail_exc_gen":
            m = op["method"]
            if m == "simulate":
                gpjax.seed(bad.simulate)(key, 0.0)
            elif m == "generate":
                gpjax.seed(bad.generate)(key, {"a": 0.1}, 0.0)
            elif m == "assess":
                bad.assess({"a": 0.1}, 0.0)
            else:
                tr = gpjax.seed(ok.simulate)(key, 0.0)
                # same addresses, failing body: swap the generative function under the trace
                if m == "update":
                    bad.update(tr, {"a": 0.2}, 0.0)
                else:
                    gpjax.seed(bad.regenerate)(key, tr, sel("a"), 0.0)
        elif k == "flush":
            world.fault_flush()
            return "flush"
        elif k == "ctr":
            return "ctr" if world.fault_ctr(op["v"]) else None
        elif k == "flagflip":
            with world.flagflip():
                import warnings

                with warnings.catch_warnings():
                    warnings.simplefilter("ignore")
                    jax.jit(lambda x: normal.sample(x, 1.0))(0.5)
            return "flagflip"
    except BaseException as e:  # the fault: an exception propagating out of a genjax call
        if isinstance(e, (KeyboardInterrupt, SystemExit)):
            raise
        fired = FAULTS.get(k)
    return fired


# ------------------------------------------------------------------ the run


def run_case(case):
    table = pf.dist_table()
    f_plain = pf.build_pf(case["pf"], table, kwargs_form=case["kw"])
    viol = []
    probes = {"probe_points": 0, "leak_seen": 0, "cfg_eager": 0, "cfg_rebuilt": 0, "cfg_jit": 0, "cfg_vmap": 0, "cfg_jitvmap": 0,
              "rejected_by_interpreter": 0, "distinct_key_checked": 0, "discrete_skipped": 0}
    faults = {}
    g = golden(case)
    if "error" in g:
        # the interpreter does not accept this function even in a pristine world: outside the
        # quantifier ("all probabilistic functions the seed interpreter accepts")
        probes["rejected_by_interpreter"] = 1
        return {"violations": [], "steps": 0, "probes": probes, "faults": {}, "nontrivial": False,
                "key": "rejected:" + pf.shape_key(case["pf"]), "evals": 1}
    gold = decode(g["leaves"])
    gold2 = decode(g["leaves_otherkey"])
    key = jax.random.key(case["key"])
    steps = 0
    hist = []
    state_seq = []

    def compare(res, cfg, i):
        got = world.leaves(res)
        if cfg in ("eager", "rebuilt"):
            same = len(got) == len(gold) and all(
                a.dtype == b.dtype and a.shape == b.shape and a.tobytes() == b.tobytes() for a, b in zip(got, gold))
            if not same:
                viol.append({"class": "history_dependence", "clause": "bit_identical_to_pristine",
                             "message": f"eager probe at step {i} after history {hist} differs from the pristine golden",
                             "sig": {"cfg": cfg, "last_noise": hist[-1] if hist else None}})
        else:
            ok, skipped = world.tree_close(got, gold)
            probes["discrete_skipped"] += skipped
            if not ok:
                viol.append({"class": "transform_instability", "clause": "same_under_" + cfg,
                             "message": f"{cfg} probe at step {i} after history {hist} differs from eager golden",
                             "sig": {"cfg": cfg, "last_noise": hist[-1] if hist else None}})

    seeded = gpjax.seed(f_plain)
    gfi_ok = _gen_models()[0]
    gfi_seeded = {"generate": gpjax.seed(gfi_ok.generate), "regenerate": gpjax.seed(gfi_ok.regenerate)}
    gfi_tr = gfi_ok.generate({"a": jnp.float32(0.3), "b": jnp.float32(-0.2)}, 0.0)[0]
    for i, op in enumerate(case["ops"]):
        steps += 1
        if op["op"] == "gfi_probe":
            from genjax import sel

            probes["gfi_probe_" + op["cover"]] = probes.get("gfi_probe_" + op["cover"], 0) + 1
            m = op["method"]
            if m == "generate":
                arg = {"all": {"a": jnp.float32(0.4), "b": jnp.float32(1.1)}, "some": {"b": jnp.float32(1.1)}, "none": {}}[op["cover"]]
                call = lambda fn: fn(key, arg, op["x"])
            else:
                arg = {"all": sel(()), "some": sel("a"), "none": sel()}[op["cover"]]
                call = lambda fn: fn(key, gfi_tr, arg, op["x"])
            try:
                persistent = gfi_seeded[m]
                res1 = call(jax.jit(persistent) if op["cfg"] == "jit" else persistent)
                res2 = call(persistent)
                fresh = call(gpjax.seed(getattr(gfi_ok, m)))
                if not world.bit_equal(res2, fresh):
                    viol.append({"class": "history_dependence", "clause": "seeded_object_reuse_equals_fresh_object",
                                 "message": f"seed(model.{m}) reused after history {hist} ({op['cover']} addresses) differs from a freshly "
                                            "seeded object with the same key and arguments",
                                 "sig": {"cfg": "gfi", "last_noise": hist[-1] if hist else None}})
                elif not world.tree_close(world.leaves(res1), world.leaves(res2))[0]:
                    viol.append({"class": "transform_instability", "clause": "same_under_jit",
                                 "message": f"jit(seed(model.{m})) differs from the eager call ({op['cover']} addresses)",
                                 "sig": {"cfg": "gfi_jit", "last_noise": hist[-1] if hist else None}})
            except Exception as e:
                viol.append({"class": "history_dependence", "clause": "probe_raises_gfi",
                             "message": f"gfi probe {m}/{op['cover']}/{op['cfg']} after history {hist} raised {type(e).__name__}: {str(e)[:300]}",
                             "sig": {"cfg": "gfi", "exception": type(e).__name__, "frame": world.innermost_genjax_frame(e),
                                     "last_noise": hist[-1] if hist else None}})
            hist.append("gfi:" + m + ":" + op["cover"])
            if viol:
                break
            continue
        if op["op"] == "probe":
            cfg = op["cfg"]
            probes["probe_points"] += 1
            probes["cfg_" + cfg] += 1
            try:
                if cfg == "eager":
                    res = call_probe(seeded, case, key, case["kw"])
                elif cfg == "rebuilt":
                    # the same program as a fresh function object: staged anew (staging-cache state)
                    res = call_probe(gpjax.seed(pf.build_pf(case["pf"], table, kwargs_form=case["kw"])), case, key, case["kw"])
                elif cfg == "jit":
                    res = call_probe(jax.jit(gpjax.seed(f_plain)), case, key, case["kw"])
                else:
                    pos = (case["key"] + i) % 3
                    ks = jax.random.split(jax.random.key(case["key"] ^ 0x5EED), 3)
                    ks = jnp.stack([key if j == pos else ks[j] for j in range(3)])
                    if case["kw"]:
                        h = lambda k_, a: gpjax.seed(f_plain)(k_, a, shift=0.25)
                    else:
                        h = lambda k_, a: gpjax.seed(f_plain)(k_, a)
                    vm = jax.vmap(h, in_axes=(0, None))
                    if cfg == "jitvmap":
                        vm = jax.jit(vm)
                    out = vm(ks, case["acc0"])
                    res = jax.tree_util.tree_map(lambda x: x[pos], out)
                compare(res, cfg, i)
            except Exception as e:
                viol.append({"class": "history_dependence" if cfg in ("eager", "rebuilt") else "transform_instability",
                             "clause": "probe_raises_" + cfg,
                             "message": f"{cfg} probe at step {i} after history {hist} raised {type(e).__name__}: {str(e)[:300]}",
                             "sig": {"cfg": cfg, "exception": type(e).__name__,
                                     "frame": world.innermost_genjax_frame(e),
                                     "last_noise": hist[-1] if hist else None}})
            hist.append("probe:" + cfg)
        else:
            fired = do_noise(op, case, f_plain, table)
            if fired:
                faults[fired] = faults.get(fired, 0) + 1
            hist.append(op["op"] + (":" + op["method"] if "method" in op else ""))
        sig = world.global_sig()
        state_seq.append(sig)
        if sig != (0, True, False):
            probes["leak_seen"] += 1
        if viol:
            break

    # distinct keys give distinct draws (continuous leaves)
    if not viol:
        fl = [a for a in gold if a.dtype.kind == "f" and a.size]
        fl2 = [a for a in gold2 if a.dtype.kind == "f" and a.size]
        if fl and len(fl) == len(fl2):
            probes["distinct_key_checked"] = 1
            if all(a.tobytes() == b.tobytes() for a, b in zip(fl, fl2)):
                viol.append({"class": "key_ignored", "clause": "distinct_keys_distinct_draws",
                             "message": "two different keys produced identical continuous draws", "sig": {}})
    return {"violations": viol, "steps": steps, "probes": probes, "faults": faults,
            "key": pf.shape_key(case["pf"]) + "|" + ",".join(hist) + "|" + str(sorted(set(state_seq))),
            "nontrivial": pf.count_sites(case["pf"]) >= 2 or bool(faults), "evals": probes["probe_points"]}


# ------------------------------------------------------------------ shrinking


def shrink(case):
    import copy

    ops = case["ops"]
    # drop operations (keep the last probe)
    for i in range(len(ops) - 1):
        c = copy.deepcopy(case)
        del c["ops"][i]
        yield c
    # simplify the program
    for body2 in _shrink_body(case["pf"]):
        c = copy.deepcopy(case)
        c["pf"] = body2
        yield c
    if case["kw"]:
        c = copy.deepcopy(case)
        c["kw"] = False
        yield c
    for i, op in enumerate(ops):
        if op["op"] == "probe" and op["cfg"] not in ("eager", "rebuilt"):
            c = copy.deepcopy(case)
            c["ops"][i]["cfg"] = "eager"
            yield c
        if "pf" in op and len(op["pf"]) > 1:
            c = copy.deepcopy(case)
            c["ops"][i]["pf"] = op["pf"][:1]
            yield c


def _shrink_body(body):
    import copy

    for i in range(len(body)):
        if len(body) > 1:
            yield body[:i] + body[i + 1:]
    for i, st in enumerate(body):
        if st["k"] in ("scan", "mvmap", "nseed"):
            yield body[:i] + st["body"] + body[i + 1:]
            for sub in _shrink_body(st["body"]):
                b = copy.deepcopy(body)
                b[i]["body"] = sub
                yield b
            if st.get("n", 1) > 1:
                b = copy.deepcopy(body)
                b[i]["n"] = st["n"] - 1
                yield b
        elif st["k"] == "cond":
            yield body[:i] + st["a"] + body[i + 1:]
        elif st["k"] == "gen":
            if st["n"] > 1 or st["vm"]:
                b = copy.deepcopy(body)
                b[i]["n"] = 1
                b[i]["vm"] = 0
                yield b
        elif st["k"] == "site":
            if st.get("ss"):
                b = copy.deepcopy(body)
                b[i].pop("ss")
                yield b
            if st["d"] != "normal":
                b = copy.deepcopy(body)
                b[i]["d"] = "normal"
                yield b
