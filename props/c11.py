"""C11 - ADEV value and gradient estimators are unbiased (exact for enumeration).

Generated expectation programs compose ADEV primitives (flip_enum, flip_enum_parallel,
categorical_enum_parallel, flip_mvd, flip_reinforce, normal_reparam, uniform_reparam,
multivariate_normal_(diag_)reparam, normal_reinforce, geometric_reinforce, multivariate_normal_
reinforce) with deterministic JAX code and cond. Every internal draw is a schedule decision
(SCRIPTED): discrete sites are enumerated, continuous sites become weighted finite sites whose
outcomes are Gauss-Hermite / Gauss-Legendre nodes. The outcome-tree totals
  sum P*w*estimate(script) == E[f]   and   sum P*w*jvp_estimate(script).tangent == dE[f]
are compared with the reference (exact summation / quadrature of the reference integrand in
float64, derivative by central differences). Enumeration-only programs consult the script zero
times; reparameterised-only programs give, per script, the pathwise derivative of the deterministic
function of the noise actually drawn. REAL: per-draw identities under seed / jit / modular_vmap.
"""
import copy
import math
import itertools
import numpy as np
from sim import world, gfi, otree, ref
from sim.gfi import V
from sim.scripted import run_scripted
import jax
import jax.numpy as jnp
from genjax import pjax as gpjax
from genjax import adev
from genjax.adev import Dual, expectation

PROP = "C11"
ENUM = ["flip_enum", "flip_enum_parallel", "cat_enum_parallel"]
REPARAM = ["normal_reparam", "uniform_reparam", "mvn_reparam", "mvn_diag_reparam", "normal_reparam_vec", "uniform_reparam_vec",
           "normal_reparam_vloc"]
SCORE = ["flip_mvd", "flip_reinforce", "normal_reinforce", "geometric_reinforce", "mvn_reinforce"]
ALL = ENUM + REPARAM + SCORE


def gen_case(rng, tier):
    kind = rng.choice(["enum_only", "reparam_only", "mixed", "mixed", "mixed", "uniform_reinforce"])
    if kind == "enum_only":
        sites = [rng.choice(ENUM) for _ in range(rng.randint(1, 3))]
    elif kind == "reparam_only":
        sites = [rng.choice(REPARAM) for _ in range(rng.randint(1, 2))]
    elif kind == "uniform_reinforce":
        sites = ["uniform_reinforce"] + ([rng.choice(ALL)] if rng.random() < 0.4 else [])
    else:
        sites = [rng.choice(ALL) for _ in range(rng.randint(2, 3))]
    cond_site = None
    if kind in ("enum_only", "mixed") and rng.random() < 0.3:
        # a site inside one branch of a cond on the first discrete value, followed by non-linear code
        cond_site = "flip_enum" if kind == "enum_only" else rng.choice(
            ["flip_enum", "flip_enum", "flip_mvd", "flip_reinforce", "normal_reparam", "normal_reinforce"])
    case = {"kind": kind, "sites": sites, "cond_site": cond_site, "cond": rng.random() < 0.4, "theta": [round(rng.uniform(-0.8, 0.8), 3), round(rng.uniform(-0.8, 0.8), 3)],
            "ret": rng.choice(["poly", "sin", "prod"]), "nodes": 8 if tier == "quick" else 14, "max_leaves": 1000 if tier == "quick" else 8000,
            "real_cfg": rng.choice(["seed", "jit", "mvmap"]), "key": rng.randint(0, 2**30)}
    # code after the cond(s) that reads a parameter-dependent value computed before them (two thirds of the
    # cases with a cond; derived from theta, so the random streams of older seeds are unchanged)
    case["tail"] = bool((case["cond"] or cond_site) and int(round(abs(case["theta"][0]) * 1000)) % 3 != 0)
    return case


# ------------------------------------------------------------------ the program, generic in xp


def sg(xp, x):
    return 1.0 / (1.0 + xp.exp(-x))


def site_params(xp, name, acc, t1):
    """Parameters of a site as a function of the running value acc and theta[1]."""
    if name.startswith("flip"):
        return (0.1 + 0.8 * sg(xp, acc),)
    if name == "cat_enum_parallel":
        return (xp.stack([0.0 * acc, acc, -acc + 0.3 * t1]),)
    if name in ("normal_reparam", "normal_reinforce"):
        return (acc, 0.5 + 0.3 * sg(xp, t1))
    if name == "normal_reparam_vec":
        # scalar location, vector scale: the per-coordinate noises must be independent
        return (acc, xp.stack([0.5 + 0.3 * sg(xp, t1), 0.8 + 0.0 * t1]))
    if name == "normal_reparam_vloc":
        # vector location, scalar scale (an isotropic family): again one independent noise per coordinate
        return (xp.stack([acc, 0.5 * acc - 0.2]), 0.5 + 0.3 * sg(xp, t1))
    if name == "uniform_reparam_vec":
        return (acc - 1.0, xp.stack([acc + 1.0 + 0.5 * sg(xp, t1), acc + 2.0 + 0.0 * t1]))
    if name in ("uniform_reparam", "uniform_reinforce"):
        return (acc - 1.0, acc + 1.0 + 0.5 * sg(xp, t1))
    if name == "geometric_reinforce":
        return (0.35 + 0.4 * sg(xp, acc),)
    if name in ("mvn_reparam", "mvn_reinforce"):
        s = 0.4 + 0.3 * sg(xp, t1)
        cov = xp.stack([xp.stack([s + 0.2, 0.1 * s]), xp.stack([0.1 * s, s])])
        return (xp.stack([acc, -0.5 * acc]), cov)
    if name == "mvn_diag_reparam":
        return (xp.stack([acc, 0.3 * acc]), xp.stack([0.4 + 0.3 * sg(xp, t1), 0.6 + 0.0 * t1]))
    raise ValueError(name)


def fold(xp, acc, v, t1):
    vf = xp.asarray(v) * 1.0
    vf = xp.sum(vf) if xp.ndim(vf) else vf
    return 0.5 * acc + 0.3 * xp.sin(vf) + 0.1 * t1


def ret_fn(xp, kind, acc, t0, vals):
    if kind == "poly":
        return acc + 0.2 * acc * acc
    if kind == "sin":
        return xp.sin(acc) + 0.1 * t0
    return acc * (1.0 + 0.3 * t0)


def prim(name):
    return {"flip_enum": adev.flip_enum, "flip_enum_parallel": adev.flip_enum_parallel, "flip_mvd": adev.flip_mvd,
            "flip_reinforce": adev.flip_reinforce, "cat_enum_parallel": adev.categorical_enum_parallel,
            "normal_reparam": adev.normal_reparam, "normal_reinforce": adev.normal_reinforce,
            "normal_reparam_vec": adev.normal_reparam, "uniform_reparam_vec": adev.uniform_reparam,
            "normal_reparam_vloc": adev.normal_reparam,
            "uniform_reparam": adev.uniform_reparam, "uniform_reinforce": adev.uniform_reinforce,
            "geometric_reinforce": adev.geometric_reinforce, "mvn_reparam": adev.multivariate_normal_reparam,
            "mvn_reinforce": adev.multivariate_normal_reinforce, "mvn_diag_reparam": adev.multivariate_normal_diag_reparam}[name]


def build(case):
    sites, kind, use_cond = case["sites"], case["ret"], case["cond"]

    @expectation
    def prog(t0, t1):
        acc = t0 * 1.0
        pre = jnp.cos(t1) + 0.5 * t0  # parameter-dependent value defined before every site and cond
        first_disc = None
        for name in sites:
            p = site_params(jnp, name, acc, t1)
            v = prim(name)(*p)
            if first_disc is None and (name.startswith("flip") or name == "cat_enum_parallel"):
                first_disc = v
            acc = fold(jnp, acc, v, t1)
        if case.get("cond_site") and first_disc is not None:
            cs = case["cond_site"]
            pred = first_disc if first_disc.dtype == jnp.bool_ else first_disc > 0

            def with_site(z):
                return fold(jnp, z, prim(cs)(*site_params(jnp, cs, z, t1)), t1)

            acc = jax.lax.cond(pred, with_site, lambda z: 0.7 * z, acc)
        r = ret_fn(jnp, kind, acc, t0, None)
        if use_cond and first_disc is not None:
            pred = first_disc if first_disc.dtype == jnp.bool_ else first_disc > 0
            r = jax.lax.cond(pred, lambda z: z * 1.5 + 0.2, lambda z: z - 0.4 * z * z, r)
        if case.get("tail"):
            r = r * pre + 0.05 * t1
        return r

    return prog


def _first_disc(case, vals):
    for name, v in zip(case["sites"], vals):
        if name.startswith("flip") or name == "cat_enum_parallel":
            return v
    return None


def _pred(fd):
    return bool(fd) if isinstance(fd, (bool, np.bool_)) else fd > 0


def finish(case, theta, acc, vals):
    """Reference value of the program given the running value after all sites (float64)."""
    t0 = np.float64(theta[0])
    first_disc = _first_disc(case, vals)
    r = ret_fn(np, case["ret"], acc, t0, None)
    if case["cond"] and first_disc is not None:
        r = r * 1.5 + 0.2 if _pred(first_disc) else r - 0.4 * r * r
    if case.get("tail"):
        t1 = np.float64(theta[1])
        r = r * (np.cos(t1) + 0.5 * t0) + 0.05 * t1
    return float(r)


GH_CACHE = {}


def gh(n):
    if n not in GH_CACHE:
        x, w = np.polynomial.hermite.hermgauss(n)
        GH_CACHE[n] = (x * math.sqrt(2.0), w / math.sqrt(math.pi))
    return GH_CACHE[n]


def gl(n):
    x, w = np.polynomial.legendre.leggauss(n)
    return (x + 1.0) / 2.0, w / 2.0


def site_values(name, p, n):
    """(value, weight) pairs: exact support for discrete sites, quadrature nodes for continuous ones."""
    if name.startswith("flip"):
        return [(True, float(p[0])), (False, 1 - float(p[0]))]
    if name == "cat_enum_parallel":
        lg = np.asarray(p[0])
        pr = np.exp(lg - lg.max())
        pr = pr / pr.sum()
        return [(v, float(pr[v])) for v in range(len(pr))]
    if name in ("normal_reparam", "normal_reinforce"):
        xs, ws = gh(n)
        return [(float(p[0] + p[1] * x), w) for x, w in zip(xs, ws)]
    if name in ("uniform_reparam", "uniform_reinforce"):
        xs, ws = gl(n)
        return [(float(p[0] + (p[1] - p[0]) * x), w) for x, w in zip(xs, ws)]
    if name in ("normal_reparam_vec", "uniform_reparam_vec", "normal_reparam_vloc"):
        xs, ws = gh(max(8, n // 2)) if name.startswith("normal") else gl(max(8, n // 2))
        out = []
        for (x1, w1), (x2, w2) in itertools.product(zip(xs, ws), repeat=2):
            z = np.array([x1, x2])
            if name.startswith("normal"):
                v = np.asarray(p[0]) + np.asarray(p[1]) * z
            else:
                v = np.asarray(p[0]) + (np.asarray(p[1]) - np.asarray(p[0])) * z
            out.append((v, w1 * w2))
        return out
    if name == "geometric_reinforce":
        q = float(p[0])  # success probability (geometric counts failures before the first success)
        out = []
        for kk in range(0, 160):
            pr = (1 - q) ** kk * q
            if pr < 1e-15:
                break
            out.append((float(kk), pr))
        return out
    if name in ("mvn_reparam", "mvn_reinforce", "mvn_diag_reparam"):
        xs, ws = gh(max(8, n // 2))
        L = np.diag(np.asarray(p[1])) if name == "mvn_diag_reparam" else np.linalg.cholesky(np.asarray(p[1]))
        return [(np.asarray(p[0]) + L @ np.array([x1, x2]), w1 * w2)
                for (x1, w1), (x2, w2) in itertools.product(zip(xs, ws), repeat=2)]
    raise ValueError(name)


def ref_expectation(case, theta, n=16):
    """E[f] by exact summation over discrete supports and quadrature over continuous sites."""
    t1 = np.float64(theta[1])

    def rec(i, acc, vals, weight):
        if weight == 0.0:
            return 0.0
        if i == len(case["sites"]):
            cs = case.get("cond_site")
            fd = _first_disc(case, vals)
            if cs and fd is not None:
                if not _pred(fd):
                    return weight * finish(case, theta, 0.7 * acc, vals)
                return sum(weight * w * finish(case, theta, fold(np, acc, v, t1), vals)
                           for v, w in site_values(cs, site_params(np, cs, acc, t1), n))
            return weight * finish(case, theta, acc, vals)
        name = case["sites"][i]
        tot = 0.0
        for v, w in site_values(name, site_params(np, name, acc, t1), n):
            tot += rec(i + 1, fold(np, acc, v, t1), vals + [v], weight * w)
        return tot

    return rec(0, np.float64(theta[0]) * 1.0, [], 1.0)


def ref_grad(case, theta, h=1e-5):
    g = []
    for i in range(2):
        tp, tm = list(theta), list(theta)
        tp[i] += h
        tm[i] -= h
        g.append((ref_expectation(case, tp) - ref_expectation(case, tm)) / (2 * h))
    return g


# ------------------------------------------------------------------ outcome space of the internal draws


def adev_outcomes(nodes):
    def outcomes(site):
        name = (site["name"] or "").lower().replace("_", "")
        args = [np.asarray(a, dtype=np.float64) for a in site["args"]]
        shape = tuple(site["shape"])
        if site.get("adev") and not name:
            # an ADEV site evaluated by a *pure* continuation (e.g. the phantom branch of flip_mvd): it is
            # sampled through the primitive's keyful sampler; identify the distribution by the primitive
            cls = type(site["inner"]["adev_prim"]).__name__
            fn = getattr(getattr(site["inner"]["adev_prim"], "keyful_sample_function", None), "value", None)
            fname = getattr(fn, "__name__", "")
            if cls in ("FlipMVD", "FlipEnum", "FlipEnumParallel") or "bernoulli" in fname:
                site = gfi_site(site, "flip")
                return otree.discrete_outcomes(site, max_joint=64)
            if cls == "CategoricalEnumParallel":
                return otree.discrete_outcomes(gfi_site(site, "categorical"), max_joint=64)
            if cls == "MultivariateNormalDiagREPARAM":
                name = "multivariatenormal"
                args = [args[0], np.apply_along_axis(np.diag, -1, args[1] ** 2) if args[1].ndim else np.diag(args[1] ** 2)]
            elif cls.startswith("MultivariateNormal") or "multivariate" in fname:
                name = "multivariatenormal"
            elif cls == "NormalREPARAM" or "_normal_keyful" in fname:
                name = "normal"
            elif cls == "UniformREPARAM" or "uniform" in fname:
                name = "uniform"
            elif "geometric" in fname:
                name = "geometric"
                site = dict(site)
                site["kwargs"] = {"probs": args[0]}
            else:
                raise NotImplementedError(cls + "/" + fname)
        if name in ("flip", "categorical"):
            return otree.discrete_outcomes(site, max_joint=64)
        if name == "geometric":
            if int(np.prod(shape, dtype=int)) > 1:
                raise otree.TreeBudget("vectorised geometric site")
            if "probs" in site["kwargs"]:
                q = float(np.asarray(site["kwargs"]["probs"]))
            else:
                lg = float(np.asarray(site["kwargs"].get("logits", args[0] if args else 0.0)))
                q = 1.0 / (1.0 + math.exp(-lg))
            vals, probs = [], []
            for kk in range(0, 160):
                pr = (1 - q) ** kk * q
                if pr < 1e-15:
                    break
                vals.append(np.full(shape, kk, dtype=np.dtype(site["dtype"])))
                probs.append(pr)
            return vals, probs
        if name == "normal":
            loc, sc = np.broadcast_to(args[0], shape), np.broadcast_to(args[1], shape)
            xs, ws = gh(nodes if np.prod(shape, dtype=int) <= 1 else max(6, nodes // 2))
            vals, probs = [], []
            if len(xs) ** int(np.prod(shape, dtype=int)) > 1500:
                raise otree.TreeBudget("vectorised normal site")
            for combo in itertools.product(range(len(xs)), repeat=int(np.prod(shape, dtype=int))):
                z = np.array([xs[c] for c in combo]).reshape(shape)
                vals.append((loc + sc * z).astype(np.float32))
                probs.append(float(np.prod([ws[c] for c in combo])))
            return vals, probs
        if name == "uniform":
            lo, hi = np.broadcast_to(args[0], shape), np.broadcast_to(args[1], shape)
            xs, ws = gl(nodes)
            vals, probs = [], []
            if len(xs) ** int(np.prod(shape, dtype=int)) > 1500:
                raise otree.TreeBudget("vectorised uniform site")
            for combo in itertools.product(range(len(xs)), repeat=int(np.prod(shape, dtype=int))):
                z = np.array([xs[c] for c in combo]).reshape(shape)
                vals.append((lo + (hi - lo) * z).astype(np.float32))
                probs.append(float(np.prod([ws[c] for c in combo])))
            return vals, probs
        if name == "multivariatenormal":
            loc, cov = args
            d = loc.shape[-1]
            lead = shape[:-1]
            nl = int(np.prod(lead, dtype=int)) if lead else 1
            xs, ws = gh(max(6, nodes // 2))
            if len(xs) ** (d * nl) > 1500:
                raise otree.TreeBudget("vectorised multivariate site: %d^%d joint nodes" % (len(xs), d * nl))
            L = np.linalg.cholesky(np.broadcast_to(cov, lead + (d, d)).reshape((nl, d, d)))
            locs = np.broadcast_to(loc, lead + (d,)).reshape((nl, d))
            vals, probs = [], []
            for combo in itertools.product(range(len(xs)), repeat=d * nl):
                z = np.array([xs[c] for c in combo]).reshape(nl, d)
                v = locs + np.einsum("nij,nj->ni", L, z)
                vals.append(v.reshape(shape).astype(np.float32))
                probs.append(float(np.prod([ws[c] for c in combo])))
            return vals, probs
        raise NotImplementedError(site["name"])

    return outcomes


def gfi_site(site, name):
    s2 = dict(site)
    s2["name"] = name
    return gfi.Site(s2) if hasattr(gfi, "Site") else s2


def run_case(case):
    viol = []
    kind = case["kind"]
    probes = {"kind_" + kind: 1, "cond": int(case["cond"])}
    for s in set(case["sites"]):
        probes["p_" + s] = 1
    has_disc = any(s.startswith("flip") or s == "cat_enum_parallel" for s in case["sites"])
    in_branch = case.get("cond_site") if has_disc else None
    if in_branch:
        probes["site_in_cond_branch"] = 1
    sig = dict(kind=kind, sites="+".join(case["sites"]), cond=case["cond"],
               uses_uniform_reinforce="uniform_reinforce" in case["sites"], site_in_cond_branch=in_branch)
    evals = 0
    th = [jnp.float32(t) for t in case["theta"]]
    try:
        prog = build(case)
        want = ref_expectation(case, case["theta"])
        wgrad = ref_grad(case, case["theta"])
        if kind == "uniform_reinforce":
            probes["uniform_reinforce_probe"] = 1
        tot = 0.0
        acc_v = 0.0
        acc_g = [0.0, 0.0]
        leaves = 0

        def run(script):
            d0 = prog.jvp_estimate(Dual(th[0], jnp.float32(1.0)), Dual(th[1], jnp.float32(0.0)))
            return d0

        def both(script_vals):
            pass

        # one staged function returning value and both directional derivatives under the SAME script
        def val_and_tangents(t0, t1):
            return prog.jvp_estimate(Dual(t0, jnp.ones_like(t0)), Dual(t1, jnp.zeros_like(t1)))

        def tangent1(t0, t1):
            return prog.jvp_estimate(Dual(t0, jnp.zeros_like(t0)), Dual(t1, jnp.ones_like(t1)))

        for direction, fn in ((0, val_and_tangents), (1, tangent1)):
            tot = 0.0
            a_v = 0.0
            a_g = 0.0
            n_sites = None
            for d, P, path in otree.explore(lambda s: run_scripted(fn, s, th[0], th[1])[0], outcomes=adev_outcomes(case["nodes"]),
                                            max_leaves=case.get("max_leaves", 20000)):
                leaves += 1
                tot += P
                a_v += P * float(d.primal)
                a_g += P * float(d.tangent)
                n_sites = len(path) if n_sites is None else max(n_sites, len(path))
            evals += leaves
            if kind == "enum_only" and n_sites != 0:
                viol.append(V("not_exact", "enumeration_consumes_no_randomness",
                              f"an enumeration-only program consulted {n_sites} sampling sites", **sig))
                break
            if not world.close(tot, 1.0, 1e-6, 1e-6):
                viol.append(V("wrong_distribution", "tree_total_probability", f"sum of script weights = {tot}", **sig))
                break
            if not world.close(a_v, want, 2e-3, 2e-4):
                viol.append(V("biased_value", "estimate_is_unbiased",
                              f"sum P*w*estimate = {a_v} but E[f] = {want} (theta={case['theta']})", **sig))
                break
            if not world.close(a_g, wgrad[direction], 5e-3, 5e-4):
                viol.append(V("biased_gradient", "gradient_estimate_is_unbiased",
                              f"sum P*w*d/dtheta{direction} estimate = {a_g} but dE[f]/dtheta{direction} = {wgrad[direction]} "
                              f"(theta={case['theta']})", **sig))
                break
        probes["tree_complete"] = 1
        probes["tree_leaves"] = leaves
        if not viol:
            evals += real_checks(case, prog, th, want, wgrad, viol, sig, probes)
    except otree.TreeBudget:
        probes["tree_budget"] = 1
    except Exception as e:
        viol.append(gfi.exc_violation(e, "adev", kind=kind, sites=sig["sites"],
                                      site_in_cond_branch=in_branch,
                                      enum_parallel_with_cond=bool((case["cond"] or in_branch) and any(s in ("flip_enum_parallel", "cat_enum_parallel")
                                                                                       for s in case["sites"]))))
    return {"violations": viol, "steps": evals, "probes": probes, "faults": {}, "evals": max(evals, 1),
            "key": f"{kind}|{'+'.join(case['sites'])}|{case['cond']}|{case['ret']}|{in_branch}",
            "nontrivial": len(case["sites"]) >= 2 or case["cond"] or bool(in_branch), "extra": {"trees_complete": probes.get("tree_complete", 0)}}


def real_checks(case, prog, th, want, wgrad, viol, sig, probes):
    """REAL regime: grad_estimate agrees with jvp_estimate for the same key; enumeration-only
    programs are exact with zero variance; works under seed / jit / modular_vmap."""
    key = jax.random.key(case["key"])
    cfg = case["real_cfg"]
    probes["real_" + cfg] = 1
    g_fn = lambda t0, t1: prog.grad_estimate(t0, t1)
    j0 = lambda t0, t1: prog.jvp_estimate(Dual(t0, jnp.ones_like(t0)), Dual(t1, jnp.zeros_like(t1))).tangent
    j1 = lambda t0, t1: prog.jvp_estimate(Dual(t0, jnp.zeros_like(t0)), Dual(t1, jnp.ones_like(t1))).tangent
    e_fn = lambda t0, t1: prog.estimate(t0, t1)
    if cfg == "seed":
        run = lambda f: gpjax.seed(f)(key, th[0], th[1])
    elif cfg == "jit":
        run = lambda f: jax.jit(gpjax.seed(f))(key, th[0], th[1])
    else:
        run = lambda f: jax.tree_util.tree_map(lambda x: x[1], gpjax.seed(gpjax.modular_vmap(f, in_axes=(0, 0)))(
            key, jnp.stack([th[0] + 0.1, th[0], th[0] - 0.1]), jnp.stack([th[1], th[1], th[1]])))
    g = run(g_fn)
    if case["kind"] == "enum_only":
        e = run(e_fn)
        if not world.close(float(e), want, 2e-4, 2e-5):
            viol.append(V("not_exact", "enumeration_value_exact", f"{cfg}: estimate {float(e)} vs exact {want}", **sig))
            return 1
        for i in range(2):
            if not world.close(float(g[i]), wgrad[i], 2e-3, 2e-4):
                viol.append(V("not_exact", "enumeration_gradient_exact", f"{cfg}: grad_estimate[{i}] {float(g[i])} vs exact {wgrad[i]}", **sig))
                return 1
        probes["enum_exact_checked"] = 1
    elif cfg != "mvmap":
        # same key => grad_estimate is the vector of jvp_estimate tangents
        t0, t1 = run(j0), run(j1)
        if not (world.close(float(g[0]), float(t0), 2e-3, 2e-4) and world.close(float(g[1]), float(t1), 2e-3, 2e-4)):
            viol.append(V("inconsistent", "grad_estimate_equals_jvp_estimate_per_draw",
                          f"{cfg}: grad_estimate {[float(x) for x in g]} vs jvp_estimate tangents {[float(t0), float(t1)]} for the same key", **sig))
            return 1
    if not all(np.isfinite(float(x)) for x in g):
        viol.append(V("undefined", "finite", f"{cfg}: grad_estimate not finite", **sig))
        return 1
    sites = case["sites"] + ([case["cond_site"]] if case.get("cond_site") else [])
    n_extra = 0
    if "flip_mvd" in sites[:-1] and "uniform_reinforce" not in sites and not viol:
        n_extra += mean_gradient_test(case, prog, th, wgrad, viol, sig, probes)
    # every primitive of the case once more behind a measure-valued site (two-site program flip_mvd -> X): the
    # pure continuation of flip_mvd is the only public path that runs X's *keyed sampler*
    if case["kind"] != "uniform_reinforce":
        for X in sorted(set(case["sites"])):
            if viol or X in ("uniform_reinforce", "flip_mvd") or X.endswith("_vec") or X.endswith("_vloc") or X.startswith("mvn"):
                continue
            sub = dict(case, sites=["flip_mvd", X], cond=False, cond_site=None, kind="mixed")
            try:
                sub_grad = ref_grad(sub, case["theta"])
            except Exception:
                continue
            probes["keyed_sampler_" + X] = 1
            n_extra += mean_gradient_test(sub, build(sub), th, sub_grad, viol, dict(sig, sites="flip_mvd+" + X, pure_kont_probe=True), probes)
    return 1 + n_extra


def mean_gradient_test(case, prog, th, wgrad, viol, sig, probes):
    """REAL two-stage z-test of the mean grad_estimate over key batches against the exact gradient. A measure-valued
    site evaluates the rest of the program through the *pure* continuation, which draws downstream ADEV sites with
    their keyed samplers - never consulted by the SCRIPTED trees, whose scripts answer from the site's parameters."""
    probes["real_mean_gradient"] = probes.get("real_mean_gradient", 0) + 1
    f = jax.jit(jax.vmap(gpjax.seed(lambda t0, t1: prog.grad_estimate(t0, t1)), in_axes=(0, None, None)))
    for stage, (kk, m) in enumerate(((case["key"] + 11, 3000), (case["key"] + 12, 24000))):
        gs = np.stack([np.asarray(x, dtype=np.float64) for x in f(jax.random.split(jax.random.key(kk), m), th[0], th[1])], axis=1)
        mean, se = gs.mean(axis=0), gs.std(axis=0, ddof=1) / math.sqrt(m) + 1e-12
        z = np.abs(mean - np.asarray(wgrad)) / se
        bad = (z > 6.0) & (np.abs(mean - np.asarray(wgrad)) > 3e-4 * (1 + np.abs(np.asarray(wgrad))))
        if not bad.any():
            return stage + 1
        if stage == 1:
            i = int(np.argmax(bad))
            viol.append(V("biased_gradient", "gradient_estimate_is_unbiased",
                          f"REAL: mean grad_estimate[{i}] over {m} keys = {mean[i]:.5f} +- {se[i]:.5f}, exact {wgrad[i]:.5f} "
                          f"(z = {z[i]:.1f}, after z > 6 on a first batch)", **sig))
    return 2


def shrink(case):
    for i in range(len(case["sites"])):
        if len(case["sites"]) > 1:
            c = copy.deepcopy(case)
            del c["sites"][i]
            yield c
    if case["cond"]:
        c = copy.deepcopy(case)
        c["cond"] = False
        yield c
    if case.get("cond_site"):
        c = copy.deepcopy(case)
        c["cond_site"] = None
        yield c
        if case["cond_site"] != "flip_enum" and case["kind"] != "enum_only":
            c = copy.deepcopy(case)
            c["cond_site"] = "flip_enum"
            yield c
    if case.get("tail"):
        c = copy.deepcopy(case)
        c["tail"] = False
        yield c
    if case["ret"] != "poly":
        c = copy.deepcopy(case)
        c["ret"] = "poly"
        yield c
