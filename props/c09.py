"""C09 - mh, mala and hmc are reversible with respect to the posterior.

SCRIPTED single steps: the script supplies every internal draw (regenerate outcomes, one N(0,1) per
coordinate for mala noise / hmc momentum, the accept uniform). Per script: the draws consumed are
per coordinate; the proposed state is the reference's proposal (conditional-prior draws / Langevin
step / L leapfrog steps, gradients by float64 finite differences of the reference density); the
acceptance flag flips exactly at u = min(1, alpha_ref) (u scripted just below and just above, and
at 0+ / 1-); a rejected move returns the input trace unchanged; unselected and observed leaves are
untouched. Outcome tree for discrete targets under mh (including the mixture-indicator move through
a Cond with observed branches): the exact transition matrix K satisfies pi(x)K(x,y) = pi(y)K(y,x)
and pi K = pi against the reference posterior.
"""
import copy
import math
import itertools
import numpy as np
from sim import world, progs, ref, gfi, selections, otree
from sim.gfi import V
from sim.scripted import run_scripted
import jax
import jax.numpy as jnp
import jax.tree_util as jtu
from genjax import pjax as gpjax
from genjax.inference import mh, mala, hmc
from genjax.state import state

PROP = "C09"
SMOOTH = ["normal", "normal_s", "mvn"]


def gen_case(rng, tier):
    mode = rng.choice(["mh", "mh", "mala", "mala", "hmc", "hmc", "mh_tree", "mh_tree", "mixture"])
    if mode in ("mala", "hmc"):
        c = gfi.gen_model_case(rng, tier, depth=rng.choice([0, 1, 1]), dists=SMOOTH, max_blocks=2,
                               kinds=["site", "call", "vsite", "vcall", "scan", "cond"], shared_cond=True)
    elif mode == "mh":
        c = gfi.gen_model_case(rng, tier, depth=rng.choice([0, 1, 1]), max_blocks=3)
    elif mode == "mh_tree":
        c = gfi.gen_model_case(rng, tier, depth=rng.choice([0, 1]), dists=["flip", "bernoulli", "categorical"], max_blocks=2,
                               kinds=["site", "call", "vsite", "cond"], shared_cond=True)
    else:
        # mixture indicator z feeding a Cond whose own choices are all observed
        # both branches on the real line: an observation outside a branch's support would make the
        # reference density 0 while TFP's unchecked log_prob stays finite (trusted base, not generated)
        da, db = rng.choice(["normal", "normal_s", "laplace"]), rng.choice(["normal", "normal_s", "laplace"])
        c = {"model": {"blocks": [{"k": "site", "a": "z", "d": rng.choice(["normal", "flip"]), "kw": False},
                                  {"k": "cond", "a": "y", "shared": True, "thr": round(rng.uniform(-0.2, 0.4), 2),
                                   "ma": {"blocks": [{"k": "site", "a": "v", "d": da, "kw": False}]},
                                   "mb": {"blocks": [{"k": "site", "a": "v", "d": db, "kw": False}]}}]},
             "h": round(rng.uniform(-0.5, 0.5), 3)}
    paths = ref.model_paths(c["model"])
    if mode == "mixture":
        sel = {"t": "str", "a": "z"}
        obs = [["y", "v"]]
    else:
        sel = selections.gen_sel(rng, paths, depth=rng.choice([0, 0, 1]))
        if rng.random() < 0.3:
            sel = {"t": "all"}
        obs = [list(p) for p in gfi.pick_subset(rng, paths, rng.choice(["none", "some", "one"]))]
    c.update({"mode": mode, "sel": sel, "obs": obs, "max_states": 8 if tier == "quick" else 16, "step": rng.choice([0.05, 0.15, 0.4]), "L": rng.randint(1, 3),
              "key": rng.randint(0, 2**30), "rseed": rng.randint(0, 2**30), "nseed": rng.randint(0, 2**30)})
    return c


# ------------------------------------------------------------------ helpers


def init_trace(case, gf):
    model, h = case["model"], case["h"]
    rr = ref.run(model, h, None, rng=np.random.default_rng(case["rseed"]))
    obs = [tuple(p) for p in case["obs"]]
    cons = ref.subset(rr.choices, obs)
    tr, _ = gpjax.seed(gf.generate)(jax.random.key(case["key"]), gfi.to_jnp(cons), h)
    return tr


def flat_selected(ch, S):
    """(path, flat index) coordinates of the selected leaves, in JAX flatten order of the sub-dict."""
    sub = ref.subset(ch, sorted(S))
    leaves, treedef = jtu.tree_flatten(sub)
    paths = [p for p in sorted(S) if ref.get_path(ch, p) is not None]
    # map leaves back to paths via flatten-with-path
    lp = jtu.tree_flatten_with_path(sub)[0]
    out = []
    for kp, leaf in lp:
        path = tuple(k.key for k in kp)
        out.append((path, np.asarray(leaf, dtype=np.float64)))
    return out


def logp_of(model, h, ch):
    return ref.run(model, h, ch).logp


def with_leaves(ch, leaves):
    out = copy.deepcopy(ch)
    for path, val in leaves:
        ref.set_path(out, path, np.asarray(val, dtype=np.float32).astype(np.float64))
    return out


def grad_fd(model, h, ch, leaves, eps=1e-4):
    """Finite-difference gradient of the reference log density wrt the selected coordinates."""
    grads = []
    for i, (path, val) in enumerate(leaves):
        val = np.array(val, dtype=np.float64)
        g = np.zeros_like(val, dtype=np.float64)
        it = np.nditer(val, flags=["multi_index"]) if val.ndim else [None]
        idxs = [()] if not val.ndim else [ix for ix in np.ndindex(val.shape)]
        for ix in idxs:
            vp, vm = val.copy(), val.copy()
            vp[ix] += eps
            vm[ix] -= eps
            lp = _logp_leaves(model, h, ch, leaves, i, vp)
            lm = _logp_leaves(model, h, ch, leaves, i, vm)
            g[ix] = (lp - lm) / (2 * eps)
        grads.append(g)
    return grads


def _logp_leaves(model, h, ch, leaves, i, newval):
    out = copy.deepcopy(ch)
    for j, (path, val) in enumerate(leaves):
        ref.set_path(out, path, newval if j == i else val)
    return ref.run(model, h, out).logp


def normal_lp(x, m, s):
    return float(np.sum(-0.5 * ((x - m) / s) ** 2 - math.log(s) - 0.5 * math.log(2 * math.pi)))


def _is_accept_uniform(site):
    """The kernel's accept draw: uniform.sample(0.0, 1.0), scalar (a model's own uniform sites have
    other parameters)."""
    return ((site["name"] or "").lower() == "uniform" and tuple(site["shape"]) == () and len(site["args"]) == 2
            and float(np.asarray(site["args"][0])) == 0.0 and float(np.asarray(site["args"][1])) == 1.0)


class KernelScript:
    """Normal(0,1) sites <- supplied noise (recorded), Uniform site <- supplied u, everything else
    <- reference sampler from the passed parameters."""

    def __init__(self, seed, u, noise_seed):
        self.base = gfi.RefScript(seed)
        self.u = u
        self.nrng = np.random.default_rng(noise_seed)
        self.noise = []
        self.n_uniform = 0
        self.other = 0

    def __call__(self, site):
        name = (site["name"] or "").lower()
        if _is_accept_uniform(site):
            self.n_uniform += 1
            return np.full(site["shape"], self.u, dtype=np.float32)
        if name == "normal" and all(np.all(np.asarray(a) == v) for a, v in zip(site["args"], (0.0, 1.0))) and self.take_noise:
            v = self.nrng.standard_normal(site["shape"]).astype(np.float32)
            self.noise.append(v)
            return v
        self.other += 1
        return self.base(site)

    take_noise = True


def run_kernel(case, tr, u, mh_seed=None):
    so = selections.build(case["sel"])
    mode = case["mode"]
    if mode in ("mh", "mh_tree", "mixture"):
        k = lambda t: state(lambda tt: mh(tt, so))(t)
    elif mode == "mala":
        k = lambda t: state(lambda tt: mala(tt, so, case["step"]))(t)
    else:
        k = lambda t: state(lambda tt: hmc(tt, so, case["step"], case["L"]))(t)
    script = KernelScript(case["nseed"] if mh_seed is None else mh_seed, u, case["nseed"] + 17)
    script.take_noise = mode in ("mala", "hmc")
    (tr2, st), log = run_scripted(k, script, tr)
    return tr2, st, script


def unselected_untouched(case, paths, S, ch0, ch1, viol, sig, what):
    for p in paths:
        if p in S:
            continue
        a, b = ref.get_path(ch0, p), ref.get_path(ch1, p)
        if a is not None and (b is None or not np.array_equal(np.asarray(a).astype(np.float64), np.asarray(b).astype(np.float64))):
            viol.append(V("wrong_move", "unselected_and_observed_untouched",
                          f"{what}: unselected address {'/'.join(p)} changed from {world.to_py(a)} to {world.to_py(b)}", **sig))
            return False
    return True


def threshold_checks(case, tr, alpha_log, viol, sig, probes, expect_state=None):
    """The acceptance flag flips exactly at u = min(1, exp(alpha_log))."""
    a = math.exp(min(0.0, alpha_log)) if alpha_log > -700 else 0.0
    tests = []
    if a >= 1.0:
        tests = [(1 - 1e-6, True), (0.5, True)]
    elif a <= 1e-30:
        tests = [(1e-6, False), (0.5, False)]
    else:
        tests = [(a * 0.985, True), (min(a * 1.015, 1 - 1e-7), False) if a * 1.015 < 1 else (a * 0.5, True), (a * 1e-3 + 1e-30, True)]
        if a < 0.98:
            tests.append((1 - 1e-6, False))
    ch0 = gfi.np_choices(tr)
    for u, want_accept in tests:
        tr2, st, script = run_kernel(case, tr, u)
        probes["threshold_runs"] = probes.get("threshold_runs", 0) + 1
        acc = bool(st.get("accept"))
        if acc != want_accept:
            viol.append(V("wrong_acceptance", "accept_iff_log_u_below_min_0_log_alpha",
                          f"alpha_ref={a:.6g} (log {alpha_log:.6g}), scripted u={u:.6g}: accept={acc}, expected {want_accept}", **sig))
            return
        if not acc:
            probes["rejected"] = probes.get("rejected", 0) + 1
            if not world.bit_equal(tr2, tr):
                viol.append(V("wrong_move", "rejected_move_returns_input_unchanged",
                              f"u={u:.6g} rejected, but the returned trace differs from the input trace", **sig))
                return
        else:
            probes["accepted"] = probes.get("accepted", 0) + 1


def run_case(case):
    model, h = case["model"], case["h"]
    viol = []
    probes = {"mode_" + case["mode"]: 1}
    sig = dict(mode=case["mode"], combinators="+".join(progs.combinators(model)))
    evals = 0
    try:
        gf = progs.build(model)
        tr = init_trace(case, gf)
        paths = [tuple(p) for p in ref.model_paths(model)]
        S = {p for p in paths if selections.selected(p, case["sel"])}
        ch0 = gfi.np_choices(tr)
        r0 = ref.run(model, h, ch0)
        if not np.isfinite(r0.logp):
            probes["init_out_of_support"] = 1
            return _res(case, viol, probes, evals)
        if any(len(p) > 1 for p in S):
            probes["selection_in_subcall"] = 1
        mode = case["mode"]
        if mode in ("mh", "mixture"):
            evals += mh_step(case, tr, paths, S, ch0, r0, viol, sig, probes)
        elif mode == "mh_tree":
            evals += mh_tree(case, gf, tr, paths, S, viol, sig, probes)
        else:
            evals += gradient_step(case, tr, paths, S, ch0, r0, viol, sig, probes)
    except otree.TreeBudget:
        probes["tree_budget"] = 1
    except Exception as e:
        viol.append(gfi.exc_violation(e, case["mode"], combinators=sig["combinators"]))
    return _res(case, viol, probes, evals)


def _res(case, viol, probes, evals):
    return {"violations": viol, "steps": evals, "probes": probes, "faults": {}, "evals": max(evals, 1),
            "key": f"{case['mode']}|{progs.shape_key(case['model'])}|{selections.show(case['sel'])}|{len(case['obs'])}",
            "nontrivial": bool(progs.combinators(case["model"])) or case["mode"] in ("mala", "hmc"),
            "extra": {"trees_complete": probes.get("tree_complete", 0)}}


def mh_alpha(model, h, S, ch0, ch1):
    r0, r1 = ref.run(model, h, ch0), ref.run(model, h, ch1)
    s0 = sum(x["logp"] for x in r0.sites if x["live"] and tuple(x["path"]) in S)
    s1 = sum(x["logp"] for x in r1.sites if x["live"] and tuple(x["path"]) in S)
    return (r1.logp - r0.logp) - (s1 - s0), r0, r1


def cond_has_unobserved(model, case, r0, r1):
    """A branch switch of a Cond that still has selected / unobserved choices of its own?"""
    if r0.checks == r1.checks:
        return False
    obs = {tuple(p) for p in case["obs"]}
    switched = [p for (p, c0), (_, c1) in zip(r0.checks, r1.checks) if c0 != c1]
    for cp in switched:
        own = [tuple(s["path"]) for s in r1.sites + r0.sites if tuple(s["path"])[: len(cp)] == cp]
        if any(p not in obs for p in own):
            return True
    return False


def mh_step(case, tr, paths, S, ch0, r0, viol, sig, probes):
    model, h = case["model"], case["h"]
    # the proposal the implementation makes under the scripted regenerate outcomes (accept: u ~ 0)
    tr_acc, st, script = run_kernel(case, tr, 1e-30)
    ch1 = gfi.np_choices(tr_acc)
    alpha, r0, r1 = mh_alpha(model, h, S, ch0, ch1)
    if not unselected_untouched(case, paths, S, ch0, ch1, viol, sig, "mh (accepted)"):
        return 1
    if script.n_uniform != 1:
        viol.append(V("wrong_move", "one_accept_uniform", f"mh consulted {script.n_uniform} uniform sites", **sig))
        return 1
    # selected leaves are fresh conditional-prior draws at the reference's parameters
    sel_sites = [x for x in r1.sites if tuple(x["path"]) in S]
    un_ref, un_lanes = gfi.match_sites(sel_sites, script.base.lanes, script=script.base)
    if un_ref and np.isfinite(r1.logp):
        viol.append(V("wrong_proposal", "mh_proposes_from_conditional_prior",
                      "a selected choice was not drawn at a site with the reference's conditional-prior parameters: "
                      + gfi.site_str(un_ref[0]), **sig))
        return 1
    if cond_has_unobserved(model, case, r0, r1):
        probes["switch_with_unobserved_outside_claim"] = 1
        return 1
    if r0.checks != r1.checks:
        probes["mixture_indicator_switch"] = 1
    if not np.isfinite(r1.logp):
        alpha = -math.inf
    coh, _ = gfi.coherence(tr_acc, model, h, "mh accepted trace")
    viol += gfi.convert(coh, **sig)
    if viol:
        return 1
    threshold_checks(case, tr, alpha, viol, sig, probes)
    return 4


def gradient_step(case, tr, paths, S, ch0, r0, viol, sig, probes):
    model, h = case["model"], case["h"]
    tau = case["step"]
    mode = case["mode"]
    if not S or not all(ref.get_path(ch0, p) is not None for p in S):
        probes["empty_selection"] = 1
        tr2, st, script = run_kernel(case, tr, 0.5)
        if not world.bit_equal(tr2, tr) or script.noise:
            viol.append(V("wrong_move", "empty_selection_is_identity", "kernel with an empty selection changed the trace or drew noise", **sig))
        return 1
    leaves0 = flat_selected(ch0, S)
    ncoord = sum(int(np.size(v)) for _, v in leaves0)
    tr_acc, st, script = run_kernel(case, tr, 1e-30)
    drawn = sum(int(np.size(v)) for v in script.noise)
    probes["coords"] = ncoord
    if drawn != ncoord or sorted(np.shape(v) for v in script.noise) != sorted(np.shape(v) for _, v in leaves0):
        viol.append(V("wrong_proposal", "fresh_standard_normal_per_coordinate",
                      f"{mode}: {ncoord} selected coordinates with shapes {[np.shape(v) for _, v in leaves0]} but the kernel drew "
                      f"N(0,1) noise of shapes {[np.shape(v) for v in script.noise]}", **sig))
        return 1
    if script.n_uniform != 1:
        viol.append(V("wrong_move", "one_accept_uniform", f"{mode} consulted {script.n_uniform} uniform sites", **sig))
        return 1
    ch1 = gfi.np_choices(tr_acc)
    if not unselected_untouched(case, paths, S, ch0, ch1, viol, sig, mode + " (accepted)"):
        return 1
    accepted = bool(st.get("accept"))
    g0 = grad_fd(model, h, ch0, leaves0)
    x0 = [v for _, v in leaves0]
    eps = [np.asarray(v, dtype=np.float64) for v in script.noise]
    best = None
    perms = list(itertools.permutations(range(len(eps)))) if len(eps) <= 3 else [tuple(range(len(eps)))]
    for perm in perms:
        e = [eps[i] for i in perm]
        if any(np.shape(a) != np.shape(b) for a, b in zip(e, x0)):
            continue
        if mode == "mala":
            x1 = [x + tau ** 2 / 2 * g + tau * n for x, g, n in zip(x0, g0, e)]
            leaves1 = [(p, v) for (p, _), v in zip(leaves0, x1)]
            chp = with_leaves(ch0, leaves1)
            lp1 = logp_of(model, h, chp)
            if not np.isfinite(lp1):
                alpha = -math.inf
            else:
                g1 = grad_fd(model, h, chp, leaves1)
                fwd = sum(normal_lp(b, a + tau ** 2 / 2 * ga, tau) for a, b, ga in zip(x0, x1, g0))
                bwd = sum(normal_lp(a, b + tau ** 2 / 2 * gb, tau) for a, b, gb in zip(x0, x1, g1))
                alpha = (lp1 - r0.logp) + bwd - fwd
        else:
            x, p = [v.copy() for v in x0], [n.copy() for n in e]
            g = g0
            cur = ch0
            ok = True
            for _ in range(case["L"]):
                p = [pi + tau / 2 * gi for pi, gi in zip(p, g)]
                x = [xi + tau * pi for xi, pi in zip(x, p)]
                lv = [(pp, v) for (pp, _), v in zip(leaves0, x)]
                cur = with_leaves(ch0, lv)
                if not np.isfinite(logp_of(model, h, cur)):
                    ok = False
                    break
                g = grad_fd(model, h, cur, lv)
                p = [pi + tau / 2 * gi for pi, gi in zip(p, g)]
            x1 = x
            chp = cur
            if not ok:
                alpha = -math.inf
            else:
                k0 = -0.5 * sum(float(np.sum(n ** 2)) for n in e)
                k1 = -0.5 * sum(float(np.sum(pi ** 2)) for pi in p)
                alpha = (logp_of(model, h, chp) + k1) - (r0.logp + k0)
        err = max(float(np.max(np.abs(np.asarray(ref.get_path(ch1, pth), dtype=np.float64) - v))) for (pth, _), v in zip(leaves0, x1)) \
            if accepted else 0.0
        if best is None or err < best[0]:
            best = (err, alpha, x1)
    err, alpha, x1 = best
    scale = max(1.0, max(float(np.max(np.abs(v))) for v in x1))
    if accepted and err > 5e-3 * scale:
        viol.append(V("wrong_proposal", f"{mode}_proposal_formula",
                      f"{mode} with step {tau}: proposed state differs from the reference proposal by {err:.4g} "
                      f"(reference {world.to_py(x1)}, implementation {[world.to_py(ref.get_path(ch1, p)) for p, _ in leaves0]})", **sig))
        return 2
    if accepted:
        coh, _ = gfi.coherence(tr_acc, model, h, mode + " accepted trace")
        viol += gfi.convert(coh, **sig)
        if viol:
            return 2
    if not accepted and alpha > -30:
        viol.append(V("wrong_acceptance", "accept_iff_log_u_below_min_0_log_alpha",
                      f"{mode}: u=1e-30 was rejected although alpha_ref = exp({alpha:.4g})", **sig))
        return 2
    threshold_checks(case, tr, alpha, viol, sig, probes)
    return 5


def mh_tree(case, gf, tr0, paths, S, viol, sig, probes):
    """Exact transition matrix of mh over the selected discrete latents; detailed balance vs the posterior."""
    model, h = case["model"], case["h"]
    obs = {tuple(p) for p in case["obs"]}
    ch_init = gfi.np_choices(tr0)
    if not S:
        probes["empty_selection"] = 1
        return 0
    # all states = completions of the selected sites given everything else fixed (reference enumeration)
    fixed = ref.subset(ch_init, [p for p in paths if p not in S])
    states = []
    try:
        comps = list(ref.completions(model, h, fixed, max_leaves=64))
    except RuntimeError:
        probes["tree_skipped_size"] = 1
        return 0
    for r, pu in comps:
        if any(not s["live"] and s["sampled"] for s in r.sites):
            pass
        states.append((r.choices, r.logp))
    # de-duplicate on visible selected values (dead disjoint-branch completions collapse)
    uniq = {}
    for ch, lp in states:
        key = repr([(p, np.asarray(ref.get_path(ch, p)).tolist()) for p in sorted(S) if ref.get_path(ch, p) is not None])
        uniq.setdefault(key, (ch, lp))
    keys = sorted(uniq)
    if len(keys) > case.get("max_states", 16) or len(keys) < 2:
        probes["tree_skipped_size"] = 1
        return 0
    pi = np.array([math.exp(uniq[k][1]) for k in keys])
    if pi.sum() <= 0:
        return 0
    pi = pi / pi.sum()
    so = selections.build(case["sel"])
    K = np.zeros((len(keys), len(keys)))
    evals = 0
    for i, k in enumerate(keys):
        chx = uniq[k][0]
        r_x = ref.run(model, h, chx)
        if not np.isfinite(r_x.logp):
            continue
        trx, _ = gpjax.seed(gf.generate)(jax.random.key(case["key"]), gfi.to_jnp(chx), h)
        run = lambda s: run_scripted(lambda t: mh(t, so), _accepting(s), trx)[0]
        tot = 0.0
        for try_, P, path in otree.explore(run, outcomes=_skip_uniform, max_leaves=256):
            evals += 1
            tot += P
            chy = gfi.np_choices(try_)
            alpha, r0, r1 = mh_alpha(model, h, S, gfi.np_choices(trx), chy)
            if cond_has_unobserved(model, case, r0, r1):
                probes["switch_with_unobserved_outside_claim"] = 1
                return evals
            a = math.exp(min(0.0, alpha)) if np.isfinite(r1.logp) else 0.0
            ky = repr([(p, np.asarray(ref.get_path(chy, p)).tolist()) for p in sorted(S) if ref.get_path(chy, p) is not None])
            if ky not in uniq:
                viol.append(V("wrong_move", "proposal_stays_in_state_space", f"mh proposed a state outside the enumerated completions: {ky}", **sig))
                return evals
            j = keys.index(ky)
            K[i, j] += P * a
            K[i, i] += P * (1 - a)
            # the implementation's own acceptance rule at this proposal: boundary runs
            if 1e-6 < a < 1 - 1e-6 and probes.get("boundary_runs", 0) < 6:
                # just below the threshold: accept; just above (when representable below 1 in float32): reject
                tests_ = [(a * 0.98, True)] + ([(a * 1.02, False)] if a * 1.02 < 1 - 1e-4 else [((a + 1.0) / 2.0, False)] if a < 1 - 1e-3 else [])
                for u, want in tests_:
                    forced = _force_path(path)
                    got = run_scripted(lambda t: state(lambda tt: mh(tt, so))(t), _with_u(forced, u), trx)[0][1].get("accept")
                    probes["boundary_runs"] = probes.get("boundary_runs", 0) + 1
                    if bool(got) != bool(want):
                        viol.append(V("wrong_acceptance", "accept_iff_log_u_below_min_0_log_alpha",
                                      f"tree proposal with alpha_ref={a:.6g}: u={u:.6g} gave accept={bool(got)}", **sig))
                        return evals
        if not world.close(tot, 1.0, 1e-5, 1e-5):
            viol.append(V("wrong_distribution", "tree_total_probability", f"proposal probabilities from state {k} sum to {tot}", **sig))
            return evals
    probes["tree_complete"] = 1
    probes["tree_states"] = len(keys)
    flow = pi[:, None] * K
    if not np.allclose(flow, flow.T, rtol=2e-3, atol=2e-6):
        i, j = np.unravel_index(np.argmax(np.abs(flow - flow.T)), flow.shape)
        viol.append(V("not_reversible", "detailed_balance",
                      f"pi(x)K(x,y)={flow[i, j]:.6g} but pi(y)K(y,x)={flow[j, i]:.6g} for x={keys[i]}, y={keys[j]} "
                      f"(posterior {pi.round(5).tolist()})", **sig))
    elif not np.allclose(pi @ K, pi, rtol=2e-3, atol=2e-6):
        viol.append(V("not_reversible", "posterior_invariant", f"pi K = {(pi @ K).tolist()} but pi = {pi.tolist()}", **sig))
    return evals


_LAST = {}


def _skip_uniform(site):
    if _is_accept_uniform(site):
        return [np.full(site["shape"], 1e-30, dtype=np.float32)], [1.0]
    return otree.discrete_outcomes(site, max_joint=64)


def _accepting(s):
    return s


def _force_path(path):
    return list(path)


def _with_u(path, u):
    """Replay the discrete choices of a tree path (option indices), with the accept uniform set to u."""
    pos = [0]

    def script(site):
        if _is_accept_uniform(site):
            pos[0] += 1
            return np.full(site["shape"], u, dtype=np.float32)
        vals, probs = otree.discrete_outcomes(site, max_joint=64)
        i = pos[0]
        pos[0] += 1
        return vals[path[i]]

    return script


def shrink(case):
    for m in gfi.shrink_model(case["model"]):
        c = copy.deepcopy(case)
        c["model"] = m
        valid = {tuple(p) for p in ref.model_paths(m)}
        c["obs"] = [p for p in c["obs"] if tuple(p) in valid]
        yield c
    for s2 in selections.shrink(case["sel"]):
        c = copy.deepcopy(case)
        c["sel"] = s2
        yield c
    for i in range(len(case["obs"])):
        c = copy.deepcopy(case)
        del c["obs"][i]
        yield c
    if case.get("L", 1) > 1:
        c = copy.deepcopy(case)
        c["L"] = 1
        yield c
