"""C14 - unseeded sampling can never be compiled into a fixed-randomness program.

Placement generator: a sampling site nested <= 3 deep inside jit, scan, while_loop, fori_loop,
cond / switch, grad, vmap, nested jit, checkpoint, custom_jvp bodies and @gen functions.
Without seed every compile attempt must raise the dedicated lowering error (plain vmap:
NotImplementedError) - never return. With seed: either the same error, or a result that (a) changes
with the key, (b) is bit-identical for the same key while the simulator jumps the logical clock
(global_counter) and flushes every cache between the two calls - a site that silently used hidden
randomness would follow the clock, not the key - and (c) compiles under jit. History: the same
placements, rebuilt as fresh function objects, are probed before and after a neighbour disabled the
exception flag, cache flushes and failing neighbours; the module flags must be back at their defaults.
"""
import copy
import warnings
import numpy as np
import jax
import jax.numpy as jnp

from sim import world
from sim.gfi import V
from genjax import pjax as gpjax, normal, gen

PROP = "C14"
COMPILING = {"jit", "scan", "while", "fori", "cond", "switch"}
WRAPPERS = ["jit", "scan", "while", "fori", "cond", "switch", "grad", "vmap", "checkpoint", "custom_jvp", "vmap_unbatched",
            "mvmap_mapped", "mvmap_unmapped", "gen_vmap", "custom_vjp"]
# wrappers whose bodies the seed interpreter does not walk itself and that JAX evaluates without compiling
OPAQUE = ["checkpoint", "custom_jvp", "custom_vjp"]


def gen_case(rng, tier):
    depth = rng.choice([1, 1, 2, 2, 3])
    chain = [rng.choice(WRAPPERS) for _ in range(depth)]
    if rng.random() < 0.15:
        # a site several levels deep inside opaque, eagerly evaluated wrappers (optionally below one other wrapper)
        chain = ([rng.choice(WRAPPERS)] if rng.random() < 0.3 else []) + [rng.choice(OPAQUE) for _ in range(rng.randint(2, 3))]
        depth = len(chain)
    # reverse-mode differentiation of lax.while_loop / fori_loop is not a JAX program at all
    while any(w == "grad" and any(v in ("while", "fori") for v in chain[i + 1:]) for i, w in enumerate(chain)):
        chain = [rng.choice(WRAPPERS) for _ in range(depth)]
    ops = []
    for _ in range(rng.randint(2, 5 if tier == "quick" else 8)):
        r = rng.random()
        if r < 0.5:
            ops.append({"op": "probe", "seeded": rng.random() < 0.5})
        elif r < 0.65:
            ops.append({"op": "flagflip"})
        elif r < 0.8:
            ops.append({"op": "flush"})
        elif r < 0.9:
            ops.append({"op": "ctr", "v": rng.choice([0, rng.randint(1, 10**6)])})
        else:
            ops.append({"op": "fail_neighbour", "kind": rng.choice(["jit_unseeded", "vmap_site", "collision"])})
    ops += [{"op": "probe", "seeded": False}, {"op": "probe", "seeded": True}]
    return {"chain": chain, "site": rng.choice(["sample", "sample", "call", "gen"]), "ops": ops,
            "key": rng.randint(0, 2**30), "x": round(rng.uniform(0.1, 1.0), 3),
            # probe one persistent function object through the whole history (seeded, then unseeded, ...) instead of
            # rebuilding the placement for every probe
            "persist": rng.random() < 0.35}


def build(case):
    """Fresh function objects every time (a cache hit on an executable compiled while a neighbour had
    disabled the exception is not a compile attempt)."""
    kind = case["site"]
    if kind == "sample":
        g = lambda x: normal.sample(x, 1.0)
    elif kind == "call":
        g = lambda x: normal(x, 1.0)
    else:
        @gen
        def m(x):
            return normal(x, 1.0) @ "a"

        g = lambda x: m.simulate(x).get_retval()
    for w in reversed(case["chain"]):
        g = wrap(w, g)
    return g


def wrap(w, g):
    if w == "jit":
        return jax.jit(lambda x: g(x))
    # loop bodies and branches are function objects of their own (as in user code that defines a step function
    # once): JAX caches their traced jaxprs per function object
    if w == "scan":
        body = lambda c, _: (g(c) * 0.5, None)
        return lambda x: jax.lax.scan(body, x, None, length=2)[0]
    if w == "while":
        cond_f, body = (lambda s: s[0] < 2), (lambda s: (s[0] + 1, g(s[1]) * 0.5))
        return lambda x: jax.lax.while_loop(cond_f, body, (0, x))[1]
    if w == "fori":
        body = lambda i, c: g(c) * 0.5
        return lambda x: jax.lax.fori_loop(0, 2, body, x)
    if w == "cond":
        t_f, f_f = (lambda y: g(y)), (lambda y: y * 2.0)
        return lambda x: jax.lax.cond(x > -100.0, t_f, f_f, x)
    if w == "switch":
        branches = [lambda y: y * 2.0, lambda y: g(y)]
        return lambda x: jax.lax.switch(1, branches, x)
    if w == "grad":
        return lambda x: jax.grad(lambda y: g(y) * y)(x)
    if w == "vmap":
        return lambda x: jnp.sum(jax.vmap(lambda y: g(y))(jnp.stack([x, x + 1.0])))
    if w == "vmap_unbatched":
        # the site's arguments do not depend on the mapped input
        return lambda x: jnp.sum(jax.vmap(lambda y: y + g(x))(jnp.stack([x, x + 1.0])) * jnp.asarray([1.0, -1.0]))
    if w == "mvmap_mapped":
        # modular_vmap keeps the site as a (re-bound, lane-wise) sampling primitive: still unseeded
        return lambda x: jnp.sum(gpjax.modular_vmap(lambda y: g(y))(jnp.stack([x, x + 1.0])) * jnp.asarray([1.0, -0.5]))
    if w == "mvmap_unmapped":
        return lambda x: jnp.sum(gpjax.modular_vmap(lambda: g(x), in_axes=(), axis_size=2)() * jnp.asarray([1.0, -0.5]))
    if w == "gen_vmap":
        @gen
        def vm(y):
            return normal.vmap(in_axes=(0, None))(jnp.stack([y, y + 1.0]), 1.0) @ "v"

        return lambda x: jnp.sum(vm.simulate(g(x) * 0.0 + x).get_retval() * jnp.asarray([1.0, -0.5]))
    if w == "checkpoint":
        return jax.checkpoint(lambda x: g(x))
    if w == "custom_jvp":
        f = jax.custom_jvp(lambda x: g(x))
        f.defjvp(lambda p, t: (f(p[0]), t[0]))
        return f
    if w == "custom_vjp":
        f = jax.custom_vjp(lambda x: g(x))
        f.defvjp(lambda x: (g(x), None), lambda res, ct: (ct,))
        return f
    raise ValueError(w)


LOWERING = gpjax.LoweringSamplePrimitiveToMLIRException


def classify(exc):
    if isinstance(exc, LOWERING):
        return "lowering"
    if isinstance(exc, NotImplementedError):
        return "notimpl"
    # JAX may wrap the error raised inside a lowering rule
    cur = exc
    for _ in range(6):
        cur = cur.__cause__ or cur.__context__
        if cur is None:
            break
        if isinstance(cur, LOWERING):
            return "lowering"
        if isinstance(cur, NotImplementedError):
            return "notimpl"
    if "PJAX Sample Primitive Lowering Error" in str(exc):
        return "lowering"
    return "other:" + type(exc).__name__


def run_case(case):
    chain = case["chain"]
    # A cond / switch below a wrapper that maps its predicate (plain vmap, modular_vmap over a mapped
    # argument) is turned into a select of both branches evaluated eagerly: no compile attempt happens.
    compiles = False
    lanes_outside = False
    for w in chain:
        if w in ("jit", "scan", "while", "fori"):
            compiles = True
        elif w in ("cond", "switch") and not lanes_outside:
            compiles = True
        if w in ("vmap", "mvmap_mapped"):
            lanes_outside = True
    # modular_vmap is built on jax.vmap: constructs it does not interpret (checkpoint, custom_jvp, ...)
    # reach the site's batch rule without the modular context and raise NotImplementedError like plain vmap
    has_vmap = any(w in ("vmap", "mvmap_mapped", "mvmap_unmapped", "gen_vmap") for w in chain)
    has_vmap_unb = "vmap_unbatched" in chain
    viol = []
    faults = {}
    probes = {"unseeded_probe": 0, "seeded_probe": 0, "unseeded_raised_lowering": 0, "unseeded_raised_notimpl": 0,
              "seeded_raised": 0, "seeded_returned": 0, "eager_only": 0}
    for w in set(chain):
        probes["w_" + w] = 1
    sig = dict(chain="/".join(chain), site=case["site"], has_grad="grad" in chain,
               vmap_unbatched=has_vmap_unb and "vmap" not in chain)
    x = jnp.float32(case["x"])
    hist = []
    steps = 0
    f_persist = build(case) if case.get("persist") else None
    if f_persist is not None:
        probes["persistent_object"] = 1
    mk = (lambda: f_persist) if f_persist is not None else (lambda: build(case))
    for op in case["ops"]:
        steps += 1
        k = op["op"]
        hist.append(k + (":s" if op.get("seeded") else ""))
        if k == "flagflip":
            with world.flagflip():
                with warnings.catch_warnings():
                    warnings.simplefilter("ignore")
                    try:
                        jax.jit(lambda y: normal.sample(y, 1.0))(x)
                    except Exception:
                        pass
            faults["flagflip"] = faults.get("flagflip", 0) + 1
        elif k == "flush":
            world.fault_flush()
            faults["flush"] = faults.get("flush", 0) + 1
        elif k == "ctr":
            if world.fault_ctr(op["v"]):
                faults["ctr"] = faults.get("ctr", 0) + 1
        elif k == "fail_neighbour":
            try:
                if op["kind"] == "jit_unseeded":
                    jax.jit(lambda y: normal.sample(y, 1.0))(x)
                elif op["kind"] == "vmap_site":
                    jax.vmap(lambda y: normal.sample(y, 1.0))(jnp.arange(3.0))
                else:
                    @gen
                    def dup(y):
                        a = normal(y, 1.0) @ "a"
                        return normal(a, 1.0) @ "a"

                    gpjax.seed(dup.simulate)(jax.random.key(1), x)
            except Exception:
                faults["usererr"] = faults.get("usererr", 0) + 1
        elif not op["seeded"]:
            probes["unseeded_probe"] += 1
            f = mk()
            try:
                r = f(x)
                jax.block_until_ready(r)
                outcome = "returned"
            except Exception as e:
                outcome = classify(e)
            if outcome == "lowering":
                probes["unseeded_raised_lowering"] += 1
            elif outcome == "notimpl":
                probes["unseeded_raised_notimpl"] += 1
            if outcome == "returned":
                if compiles:
                    viol.append(V("baked_randomness", "compile_attempt_raises_lowering_error",
                                  f"unseeded site under {'/'.join(chain)} was compiled and returned {world.to_py(r)} "
                                  f"after history {hist}", **sig))
                elif "vmap" in chain or has_vmap_unb:
                    viol.append(V("replicated_draw", "plain_vmap_over_site_raises",
                                  f"plain jax.vmap over an unseeded site ({'/'.join(chain)}) returned instead of raising", **sig))
                else:
                    probes["eager_only"] += 1
            elif outcome.startswith("other"):
                viol.append(V("wrong_error", "dedicated_lowering_error",
                              f"unseeded site under {'/'.join(chain)} raised {outcome} instead of the lowering error", **sig))
            elif outcome == "notimpl" and not (has_vmap or has_vmap_unb):
                viol.append(V("wrong_error", "dedicated_lowering_error",
                              f"unseeded site under {'/'.join(chain)} raised NotImplementedError without a vmap", **sig))
        else:
            probes["seeded_probe"] += 1
            key = jax.random.key(case["key"])
            try:
                r1 = gpjax.seed(mk())(key, x)
                jax.block_until_ready(r1)
            except Exception as e:
                c = classify(e)
                probes["seeded_raised"] += 1
                if c not in ("lowering", "notimpl"):
                    viol.append(V("wrong_error", "seed_raises_same_error_for_uninterpreted",
                                  f"seed(f) with site under {'/'.join(chain)} raised {c}: {str(e)[:200]}", **sig))
                elif c == "notimpl" and not (has_vmap or has_vmap_unb):
                    viol.append(V("wrong_error", "seed_raises_same_error_for_uninterpreted",
                                  f"seed(f) with site under {'/'.join(chain)} raised NotImplementedError without a vmap", **sig))
                if viol:
                    break
                continue
            probes["seeded_returned"] += 1
            # (b) the same key again, after jumping the logical clock and losing every cache
            world.fault_ctr(world.counter() + 977)
            world.fault_flush()
            r2 = gpjax.seed(mk())(key, x)
            if not world.bit_equal(r1, r2):
                viol.append(V("hidden_randomness", "seeded_result_is_function_of_key",
                              f"seed(f)(key) under {'/'.join(chain)} gave {world.to_py(r1)} then {world.to_py(r2)} for the same key "
                              "after a logical-clock jump and a cache flush: the site does not draw from the key", **sig))
                break
            # (a) another key changes the result
            r3 = gpjax.seed(mk())(jax.random.key(case["key"] + 1), x)
            if world.bit_equal(r1, r3) and not has_vmap_unb and float(jnp.sum(jnp.abs(jnp.asarray(r1, dtype=jnp.float32)))) != 0.0:
                viol.append(V("hidden_randomness", "seeded_result_changes_with_key",
                              f"seed(f) under {'/'.join(chain)} returned {world.to_py(r1)} for two different keys", **sig))
                break
            # (c) jit(seed(f)) compiles and agrees
            try:
                r4 = jax.jit(gpjax.seed(mk()))(key, x)
                if not world.tree_close(r1, r4)[0]:
                    viol.append(V("transform_instability", "jit_of_seed_agrees", f"eager {world.to_py(r1)} vs jit {world.to_py(r4)}", **sig))
                    break
            except Exception as e:
                viol.append(V("baked_randomness", "jit_of_seed_compiles",
                              f"seed(f) returned eagerly but jit(seed(f)) raised {classify(e)}: a site survived seed", **sig))
                break
        if world.global_sig()[1:] != (True, False):
            viol.append(V("flag_leak", "lowering_flags_restored", f"flags are {world.global_sig()} after {hist}", **sig))
        if viol:
            break
    return {"violations": viol, "steps": steps, "probes": probes, "faults": faults,
            "evals": probes["unseeded_probe"] + probes["seeded_probe"],
            "key": "/".join(chain) + ":" + case["site"] + "|" + ",".join(hist),
            "nontrivial": len(chain) >= 2 or bool(faults)}


def shrink(case):
    if case.get("persist"):
        c = copy.deepcopy(case)
        c["persist"] = False
        yield c
    for i in range(len(case["ops"])):
        if len(case["ops"]) > 1:
            c = copy.deepcopy(case)
            del c["ops"][i]
            yield c
    for i in range(len(case["chain"])):
        if len(case["chain"]) > 1:
            c = copy.deepcopy(case)
            del c["chain"][i]
            yield c
    if case["site"] != "sample":
        c = copy.deepcopy(case)
        c["site"] = "sample"
        yield c
