"""C17 - the ELBO objective is unbiased, tight at the posterior, and ascended by VI.

Conjugate Gaussian targets with closed-form posterior and evidence (d = 1, 2; linear-Gaussian
likelihood), variational families from genjax.inference.vi (mean-field / full covariance, reparam
and reinforce) and hand-written scalar families built from normal_reparam / normal_reinforce.
SCRIPTED: for every scripted draw estimate == ref.logp(y, x) - ref.logq(x); with q the exact
posterior it equals log p(y) for every draw; the quadrature total equals the reference ELBO
<= log p(y); grad: per-draw pathwise derivative (reparam) / quadrature total (score function) vs
finite differences of the reference ELBO. History clause: optimize_vi / elbo_vi run for n iterations
under a script; iteration t is replayed alone with the script entries it consumed and
params[t+1] == params[t] + lr * grad_t is asserted for every t, param_history holds every iterate,
final_params is the last.
"""
import copy
import math
import numpy as np
from sim import world, gfi, otree
from sim.gfi import V
from sim.scripted import run_scripted
import jax
import jax.numpy as jnp
from genjax import gen, multivariate_normal, normal
from genjax.adev import Dual, normal_reparam, normal_reinforce
from genjax.inference.vi import elbo_factory, optimize_vi, elbo_vi, mean_field_normal_family, full_covariance_normal_family
from props.c11 import adev_outcomes, gh

PROP = "C17"


def spd(rng, d, lo=0.3):
    A = np.array([[rng.uniform(-0.8, 0.8) for _ in range(d)] for _ in range(d)])
    return (A @ A.T + np.eye(d) * rng.uniform(lo, 1.0)).round(4).tolist()


def gen_case(rng, tier):
    fam = rng.choice(["mean_field", "mean_field", "full_cov", "scalar", "isotropic"])
    est = rng.choice(["reparam", "reparam", "reinforce"])
    d = 1 if fam == "scalar" else (2 if fam == "isotropic" else rng.choice([1, 2]))
    dy = rng.choice([1, 2])
    c = {"family": fam, "estimator": est, "d": d, "dy": dy,
         "m0": [round(rng.uniform(-1, 1), 3) for _ in range(d)], "S0": spd(rng, d),
         "A": [[round(rng.uniform(-1.2, 1.2), 3) for _ in range(d)] for _ in range(dy)], "R": spd(rng, dy),
         "y": [round(rng.uniform(-2, 2), 3) for _ in range(dy)],
         "at_posterior": rng.random() < 0.3,
         "mean": [round(rng.uniform(-1, 1), 3) for _ in range(d)], "log_std": [round(rng.uniform(-0.7, 0.3), 3) for _ in range(d)],
         "off": round(rng.uniform(-0.3, 0.3), 3),
         "lr": rng.choice([1e-3, 1e-2, 0.05]), "iters": rng.choice([1, 2, 3, 4]), "api": rng.choice(["optimize_vi", "elbo_vi"]),
         "sseed": rng.randint(0, 2**30), "nodes": 10 if tier == "quick" else 16}
    if fam == "scalar":
        c["dy"] = 1
        c["A"] = [[c["A"][0][0]]]
        c["R"] = [[c["R"][0][0]]]
        c["y"] = c["y"][:1]
    return c


# ------------------------------------------------------------------ reference (float64)


def posterior(case):
    m0, S0, A, R, y = (np.asarray(case[k], dtype=np.float64) for k in ("m0", "S0", "A", "R", "y"))
    Syy = A @ S0 @ A.T + R
    K = S0 @ A.T @ np.linalg.inv(Syy)
    mp = m0 + K @ (y - A @ m0)
    Sp = S0 - K @ A @ S0
    d = y - A @ m0
    logev = -0.5 * (len(y) * math.log(2 * math.pi) + np.linalg.slogdet(Syy)[1] + d @ np.linalg.solve(Syy, d))
    return mp, Sp, float(logev)


def mvn_lp(x, m, S):
    d = x - m
    return float(-0.5 * (len(x) * math.log(2 * math.pi) + np.linalg.slogdet(S)[1] + d @ np.linalg.solve(S, d)))


def ref_logp(case, x):
    m0, S0, A, R, y = (np.asarray(case[k], dtype=np.float64) for k in ("m0", "S0", "A", "R", "y"))
    return mvn_lp(x, m0, S0) + mvn_lp(y, A @ x, R)


def q_params(case, theta):
    """(mean, cov) of q for the flat float64 parameter vector theta."""
    d = case["d"]
    fam = case["family"]
    if fam in ("mean_field", "scalar"):
        return theta[:d], np.diag(np.exp(theta[d:2 * d]) ** 2)
    if fam == "isotropic":
        return theta[:d], np.eye(d) * np.exp(theta[d]) ** 2
    L = theta[d:].reshape(d, d)
    return theta[:d], L @ L.T


def ref_elbo(case, theta, n=24):
    m, S = q_params(case, theta)
    L = np.linalg.cholesky(S)
    xs, ws = gh(n)
    tot = 0.0
    d = case["d"]
    import itertools
    for combo in itertools.product(range(n), repeat=d):
        z = np.array([xs[c] for c in combo])
        w = float(np.prod([ws[c] for c in combo]))
        x = m + L @ z
        tot += w * (ref_logp(case, x) - mvn_lp(x, m, S))
    return tot


def theta0(case):
    d = case["d"]
    if case["at_posterior"]:
        mp, Sp, _ = posterior(case)
        if case["family"] == "full_cov":
            return np.concatenate([mp, np.linalg.cholesky(Sp).reshape(-1)])
        if d == 1:
            return np.concatenate([mp, 0.5 * np.log(np.diag(Sp))])
    if case["family"] == "full_cov":
        L = np.diag(np.exp(np.asarray(case["log_std"], dtype=np.float64)))
        if d == 2:
            L[1, 0] = case["off"]
        return np.concatenate([np.asarray(case["mean"], dtype=np.float64), L.reshape(-1)])
    if case["family"] == "isotropic":
        return np.concatenate([np.asarray(case["mean"], dtype=np.float64), np.asarray(case["log_std"][:1], dtype=np.float64)])
    return np.concatenate([np.asarray(case["mean"], dtype=np.float64), np.asarray(case["log_std"], dtype=np.float64)])


def exactly_posterior(case):
    return case["at_posterior"] and (case["family"] == "full_cov" or case["d"] == 1)


# ------------------------------------------------------------------ genjax objects


def build(case):
    d, dy = case["d"], case["dy"]
    m0, S0, A, R = (jnp.asarray(case[k], dtype=jnp.float32) for k in ("m0", "S0", "A", "R"))
    y = jnp.asarray(case["y"], dtype=jnp.float32)
    if case["family"] == "scalar":
        @gen
        def target():
            x = normal(m0[0], jnp.sqrt(S0[0, 0])) @ "x"
            normal(A[0, 0] * x, jnp.sqrt(R[0, 0])) @ "y"

        prim = normal_reparam if case["estimator"] == "reparam" else normal_reinforce

        @gen
        def family(constraint, params):
            return prim(params[0], jnp.exp(params[1])) @ "x"

        cons = {"y": y[0]}
        to_params = lambda th: jnp.asarray(th, dtype=jnp.float32)
    else:
        @gen
        def target():
            x = multivariate_normal(m0, S0) @ "x"
            multivariate_normal(A @ x, R) @ "y"

        cons = {"y": y}
        if case["family"] == "isotropic":
            # user-written isotropic family: per-coordinate means, one shared scale, through the Vmap combinator
            prim = normal_reparam if case["estimator"] == "reparam" else normal_reinforce

            @gen
            def family(constraint, params):
                return prim.vmap(in_axes=(0, None))(params[:d], jnp.exp(params[d])) @ "x"

            to_params = lambda th: jnp.asarray(th, dtype=jnp.float32)
        elif case["family"] == "mean_field":
            family = mean_field_normal_family(d, case["estimator"])
            to_params = lambda th: jnp.asarray(th, dtype=jnp.float32)
        else:
            family = full_covariance_normal_family(d, case["estimator"])
            to_params = lambda th: {"mean": jnp.asarray(th[:d], dtype=jnp.float32),
                                    "chol_cov": jnp.asarray(th[d:], dtype=jnp.float32).reshape(d, d)}
    return target, family, cons, to_params


def flat(case, params):
    if isinstance(params, dict):
        return np.concatenate([np.asarray(params["mean"], dtype=np.float64).reshape(-1), np.asarray(params["chol_cov"], dtype=np.float64).reshape(-1)])
    return np.asarray(params, dtype=np.float64).reshape(-1)


def x_of(case, script_sites, theta):
    """The latent value the scripted run used: reparam -> mean + L eps, reinforce -> the draw itself."""
    m, S = q_params(case, theta)
    v = np.asarray(script_sites[0]["value"], dtype=np.float64).reshape(-1)
    if case["estimator"] == "reparam":
        if case["family"] in ("scalar", "isotropic"):
            return m + np.sqrt(np.diag(S)) * v
        return m + np.linalg.cholesky(S) @ v
    return v


def run_case(case):
    viol = []
    probes = {"fam_" + case["family"]: 1, "est_" + case["estimator"]: 1, "at_posterior": int(exactly_posterior(case)),
              "iters_1": int(case["iters"] == 1)}
    sig = dict(family=case["family"], estimator=case["estimator"], d=case["d"])
    evals = 0
    try:
        target, family, cons, to_params = build(case)
        th = theta0(case)
        params = to_params(th)
        elbo = elbo_factory(target, family, cons, ())
        mp, Sp, logev = posterior(case)
        # ---- per-draw identity under reference-sampled scripts
        for r in range(3):
            script = gfi.RefScript(case["sseed"] + r)
            val, log = run_scripted(lambda p: elbo.estimate(p), script, params)
            evals += 1
            if len(log) != 1:
                viol.append(V("wrong_estimator", "one_draw_from_q", f"the ELBO estimate consulted {len(log)} sampling sites", **sig))
                break
            x = x_of(case, log, th)
            m, S = q_params(case, th)
            want = ref_logp(case, x) - mvn_lp(x, m, S)
            if not world.close(float(val), want, 2e-3, 2e-3):
                viol.append(V("biased_elbo", "estimate_is_log_p_minus_log_q_per_draw",
                              f"estimate {float(val)} but log p(y,x) - log q(x) = {want} at x={x.tolist()}", **sig))
                break
            if exactly_posterior(case) and not world.close(float(val), logev, 2e-3, 2e-3):
                viol.append(V("not_tight", "equals_log_evidence_at_posterior",
                              f"q is the exact posterior but the estimate {float(val)} != log p(y) = {logev}", **sig))
                break
        # ---- quadrature totals: value and gradient
        if not viol:
            want_elbo = ref_elbo(case, th)
            if want_elbo > logev + 1e-6:
                raise AssertionError("reference ELBO above log evidence")
            k = len(th)
            tangents = np.eye(k)
            dirs = list(range(k)) if k <= 4 else [0, 1, k - 1]
            for j in [None] + dirs:
                def fn(p, j=j):
                    if j is None:
                        return elbo.jvp_estimate(jax.tree_util.tree_map(lambda a: Dual(a, jnp.zeros_like(a)), p))
                    tp = to_params(tangents[j])
                    return elbo.jvp_estimate(jax.tree_util.tree_map(lambda a, t: Dual(a, t), p, tp))

                tot = a_v = a_g = 0.0
                for dd, P, path in otree.explore(lambda s: run_scripted(fn, s, params)[0], outcomes=adev_outcomes(case["nodes"]),
                                                 max_leaves=3000):
                    evals += 1
                    tot += P
                    a_v += P * float(dd.primal)
                    a_g += P * float(dd.tangent)
                if not world.close(tot, 1.0, 1e-5, 1e-5):
                    viol.append(V("wrong_distribution", "tree_total_probability", f"sum of weights {tot}", **sig))
                    break
                if j is None:
                    if not world.close(a_v, want_elbo, 3e-3, 3e-3):
                        viol.append(V("biased_elbo", "expected_estimate_is_elbo", f"sum w*estimate = {a_v}, reference ELBO {want_elbo}", **sig))
                        break
                    if a_v > logev + 5e-3:
                        viol.append(V("not_a_bound", "elbo_below_log_evidence", f"E[estimate] {a_v} > log p(y) {logev}", **sig))
                        break
                else:
                    h = 1e-5
                    tp, tm = th.copy(), th.copy()
                    tp[j] += h
                    tm[j] -= h
                    want_g = (ref_elbo(case, tp) - ref_elbo(case, tm)) / (2 * h)
                    if not world.close(a_g, want_g, 1e-2, 3e-3):
                        viol.append(V("biased_gradient", "expected_grad_estimate_is_elbo_gradient",
                                      f"d/dtheta[{j}]: sum w*tangent = {a_g}, reference {want_g}", **sig))
                        break
            probes["tree_complete"] = 1
        # ---- history clause: the optimiser applies params + lr * grad at every iteration
        if not viol:
            evals += history(case, target, family, cons, to_params, th, viol, sig, probes)
    except otree.TreeBudget:
        probes["tree_budget"] = 1
    except Exception as e:
        viol.append(gfi.exc_violation(e, "vi", **sig))
    return {"violations": viol, "steps": evals, "probes": probes, "faults": {}, "evals": max(evals, 1),
            "key": f"{case['family']}|{case['estimator']}|{case['d']},{case['dy']}|{case['iters']}|{case['api']}|{case['at_posterior']}",
            "nontrivial": case["d"] >= 2 or case["iters"] >= 2, "extra": {"trees_complete": probes.get("tree_complete", 0)}}


class Rec(gfi.RefScript):
    def __init__(self, seed):
        super().__init__(seed)
        self.values = []

    def __call__(self, site):
        v = super().__call__(site)
        self.values.append(np.asarray(v))
        return v


def history(case, target, family, cons, to_params, th, viol, sig, probes):
    n, lr = case["iters"], case["lr"]
    params0 = to_params(th)
    rec = Rec(case["sseed"] + 99)
    if case["api"] == "optimize_vi":
        elbo = elbo_factory(target, family, cons, ())
        run = lambda p: optimize_vi(elbo, p, learning_rate=lr, n_iterations=n)
    else:
        run = lambda p: elbo_vi(target, family, p, cons, (), learning_rate=lr, n_iterations=n)
        elbo = elbo_factory(target, family, cons, ())
    res, log = run_scripted(run, rec, params0)
    probes["history_" + case["api"]] = 1
    per = len(rec.values) // n if n else 0
    if per * n != len(rec.values) or per == 0:
        viol.append(V("wrong_history", "constant_draws_per_iteration", f"{len(rec.values)} draws over {n} iterations", **sig))
        return 1
    cur = params0
    lead = lambda tree, t: jax.tree_util.tree_map(lambda a: a[t], tree)
    for t in range(n):
        vals = rec.values[t * per:(t + 1) * per]
        g, _ = run_scripted(lambda p: elbo.grad_estimate(p), list(vals), cur)
        want = jax.tree_util.tree_map(lambda a, b: a + lr * b, cur, g)
        got = lead(res.param_history, t)
        if not world.tree_close(got, want, rtol=1e-4, atol=1e-5)[0]:
            viol.append(V("wrong_history", "iterate_is_params_plus_lr_times_gradient",
                          f"iteration {t}: param_history[{t}] = {world.to_py(got)} but params + lr*grad = {world.to_py(want)} "
                          f"(lr={lr})", **sig))
            return t + 1
        cur = got
    if int(res.n_iterations.value) != n or jax.tree_util.tree_leaves(res.param_history)[0].shape[0] != n:
        viol.append(V("wrong_history", "history_holds_every_iterate", f"n_iterations={res.n_iterations.value}, history length "
                      f"{jax.tree_util.tree_leaves(res.param_history)[0].shape[0]}", **sig))
    elif not world.bit_equal(res.final_params, lead(res.param_history, n - 1)):
        viol.append(V("wrong_history", "final_params_is_last_iterate", "final_params differs from the last entry of param_history", **sig))
    return n + 1


def shrink(case):
    if case["iters"] > 1:
        c = copy.deepcopy(case)
        c["iters"] -= 1
        yield c
    if case["at_posterior"]:
        c = copy.deepcopy(case)
        c["at_posterior"] = False
        yield c
