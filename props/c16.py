"""C16 - selections are a Boolean algebra on addresses; filter/merge partition choices.

Simulated clause (randomness seam): the leaves that receive fresh randomness in `regenerate` and
the leaves that `mala` / `hmc` move (SCRIPTED: noise from the reference sampler, accept uniform
scripted to accept) are exactly the leaves `filter(x, s)` returns as selected - and both equal the
Boolean meaning of the generated selection expression. Alongside, as op-level comparisons with no
simulation content: chained `match` membership equals the Boolean meaning for every leaf path;
filter returns two disjoint maps whose merge is x.
"""
import copy
import numpy as np
import jax
import jax.numpy as jnp
import jax.tree_util as jtu

from sim import world, progs, ref, gfi, selections
from sim.gfi import V
from sim.scripted import run_scripted
from genjax import pjax as gpjax
from genjax.inference import mala, hmc

PROP = "C16"


def gen_case(rng, tier):
    c = gfi.gen_model_case(rng, tier, depth=rng.choice([1, 1, 2]), dists=progs.CONT_REAL_LINE, max_blocks=3,
                           kinds=["site", "call", "vsite", "vcall", "scan", "cond"])
    paths = ref.model_paths(c["model"])
    c["sels"] = [selections.gen_sel(rng, paths, depth=rng.choice([0, 1, 2, 2, 3])) for _ in range(3 if tier == "quick" else 6)]
    c["key"] = rng.randint(0, 2**30)
    c["kernel"] = rng.choice(["mala", "hmc"])
    return c


def chained(sel_obj, path):
    s = sel_obj
    for a in path:
        _, s = s.match(a)
    return () in s


def changed_leaves(paths, old, new):
    out = set()
    for p in paths:
        a, b = ref.get_path(old, p), ref.get_path(new, p)
        if a is None or b is None:
            continue
        if not np.array_equal(np.asarray(a), np.asarray(b)):
            out.add(p)
    return out


def accept_all(seed):
    base = gfi.RefScript(seed)

    def script(site):
        if (site["name"] or "").lower() == "uniform":
            return np.full(site["shape"], 1e-30, dtype=np.float32)
        return base(site)

    return script


def run_case(case):
    model, h = case["model"], case["h"]
    gf = progs.build(model)
    paths = [tuple(p) for p in ref.model_paths(model)]
    viol = []
    probes = {"selections": 0, "regen": 0, "kernel_moves": 0, "filter": 0, "match_paths": 0}
    evals = 0
    try:
        tr = gpjax.seed(gf.simulate)(jax.random.key(case["key"]), h)
        x = tr.get_choices()
        xn = gfi.np_choices(x)
        for i, s in enumerate(case["sels"]):
            S = {p for p in paths if selections.selected(p, s)}
            so = selections.build(s)
            sig = dict(sel_depth=_depth(s))
            probes["selections"] += 1
            # op-level: chained match == Boolean meaning
            for p in paths:
                probes["match_paths"] += 1
                if bool(chained(so, p)) != (p in S):
                    viol.append(V("not_boolean_algebra", "chained_match_is_boolean_meaning",
                                  f"{selections.show(s)}: path {'/'.join(p)} matched={chained(so, p)} but meaning={p in S}", **sig))
                    break
            if viol:
                break
            # op-level: the algebra laws, composite vs parts, through the implementation's own matching
            for (a_, b_) in [(case["sels"][i], case["sels"][(i + 1) % len(case["sels"])])]:
                A, B = selections.build(a_), selections.build(b_)
                for p in paths:
                    ma, mb = bool(chained(A, p)), bool(chained(B, p))
                    laws = (("and", bool(chained(A ^ B, p)), ma and mb), ("and_commuted", bool(chained(B ^ A, p)), ma and mb),
                            ("or", bool(chained(A | B, p)), ma or mb), ("or_commuted", bool(chained(B | A, p)), ma or mb),
                            ("not", bool(chained(~A, p)), not ma))
                    for nm, got, want in laws:
                        if got != want:
                            viol.append(V("not_boolean_algebra", "composite_selection_is_boolean_combination",
                                          f"law {nm} fails on path {'/'.join(p)} for s={selections.show(a_)}, t={selections.show(b_)}: "
                                          f"composite={got}, parts give {want}", **sig))
                            break
                    if viol:
                        break
            if viol:
                break
            # op-level: filter partitions
            sel_part, unsel_part = gf.filter(x, so)
            probes["filter"] += 1
            sl = set(ref.leaf_paths(gfi.np_choices(sel_part))) if sel_part is not None else set()
            ul = set(ref.leaf_paths(gfi.np_choices(unsel_part))) if unsel_part is not None else set()
            if sl & ul or (sl | ul) != set(paths):
                viol.append(V("not_a_partition", "filter_parts_disjoint_and_complete",
                              f"{selections.show(s)}: selected {sorted(sl)}, unselected {sorted(ul)}, all {sorted(paths)}", **sig))
                break
            if sl != S:
                viol.append(V("filter_wrong_leaves", "filter_selects_exactly_selected_leaves",
                              f"{selections.show(s)}: filter selected {sorted(sl)} but the selection means {sorted(S)}", **sig))
                break
            if sel_part is not None and unsel_part is not None:
                merged, _ = gf.merge(unsel_part, sel_part)
                if not ref.trees_equal_bits(gfi.np_choices(merged), xn):
                    viol.append(V("not_a_partition", "merge_of_parts_is_x", f"{selections.show(s)}: merge(unselected, selected) != x", **sig))
                    break
            # simulated: regenerate redraws exactly S (continuous leaves: a fresh draw differs)
            tr2, w, _ = gpjax.seed(gf.regenerate)(jax.random.key(case["key"] + 1 + i), tr, so, h)
            probes["regen"] += 1
            evals += 1
            ch2 = gfi.np_choices(tr2)
            r_old, r_new = ref.run(model, h, xn), ref.run(model, h, ch2)
            moved = changed_leaves(paths, xn, ch2)
            if moved != S:
                viol.append(V("selection_mismatch", "regenerate_resamples_exactly_filter_selected",
                              f"{selections.show(s)}: regenerate changed {sorted(moved)} but filter/meaning select {sorted(S)}", **sig))
                break
            # simulated: mala / hmc move exactly S
            if S:
                so_k = so
                if case["kernel"] == "mala":
                    k = lambda t: mala(t, so_k, 0.05)
                else:
                    k = lambda t: hmc(t, so_k, 0.05, 2)
                tr3, log = run_scripted(k, accept_all(case["key"] + 100 + i), tr)
                evals += 1
                ch3 = gfi.np_choices(tr3)
                moved = changed_leaves(paths, xn, ch3)
                probes["kernel_moves"] += 1
                if moved and moved != S:
                    viol.append(V("selection_mismatch", "kernel_moves_exactly_filter_selected",
                                  f"{selections.show(s)}: {case['kernel']} moved {sorted(moved)} but the selection means {sorted(S)}", **sig))
                    break
                if not moved:
                    probes["kernel_rejected"] = probes.get("kernel_rejected", 0) + 1
    except Exception as e:
        viol.append(gfi.exc_violation(e, "selection", kernel=case["kernel"]))
    return {"violations": viol, "steps": probes["selections"], "probes": probes, "faults": {}, "evals": evals + probes["match_paths"],
            "key": progs.shape_key(model) + "|" + ";".join(selections.show(s) for s in case["sels"]),
            "nontrivial": any(_depth(s) >= 1 for s in case["sels"]) and bool(progs.combinators(model))}


def _depth(s):
    if s["t"] in ("or", "and"):
        return 1 + max(_depth(s["l"]), _depth(s["r"]))
    if s["t"] == "not":
        return 1 + _depth(s["s"])
    if s["t"] == "dict":
        return 1 + max([_depth(v) for v in s["d"].values()] or [0])
    return 0


def shrink(case):
    for i in range(len(case["sels"])):
        if len(case["sels"]) > 1:
            c = copy.deepcopy(case)
            del c["sels"][i]
            yield c
    for i, s in enumerate(case["sels"]):
        for s2 in selections.shrink(s):
            c = copy.deepcopy(case)
            c["sels"][i] = s2
            yield c
    for m in gfi.shrink_model(case["model"]):
        c = copy.deepcopy(case)
        c["model"] = m
        yield c
