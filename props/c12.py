"""C12 - resampling copies particles faithfully, preserves the estimate, and is unbiased.

Particle collections are built through the public `init` under SCRIPTED randomness (so every lane
is distinct), given generated weight vectors (uniform, near-uniform, one-hot, partly -inf, large
offsets, N = 1..8) and resampled with both methods. The random offset of systematic resampling and
the index draws of categorical resampling are schedule decisions: the offset is swept over a grid
plus every (k+u)/N boundary +- eps; categorical index vectors are enumerated (outcome tree, N <= 4)
or sampled by the reference sampler.
"""
import copy
import math
import numpy as np
import jax
import jax.numpy as jnp
import jax.tree_util as jtu

from sim import world, progs, ref, gfi, otree
from sim.gfi import V
from sim.scripted import run_scripted
from genjax import const
from genjax.inference.smc import init, resample, ParticleCollection

PROP = "C12"


def gen_weights(rng, n):
    kind = rng.choice(["uniform", "near_uniform", "onehot", "partial_inf", "random", "offset", "two_heavy"])
    if kind == "uniform":
        lw = [0.0] * n
    elif kind == "near_uniform":
        lw = [rng.uniform(-1e-3, 1e-3) for _ in range(n)]
    elif kind == "onehot":
        lw = [-math.inf] * n
        lw[rng.randrange(n)] = rng.uniform(-5, 5)
    elif kind == "partial_inf":
        lw = [rng.uniform(-3, 0) if rng.random() < 0.6 else -math.inf for _ in range(n)]
        if all(x == -math.inf for x in lw):
            lw[0] = 0.0
    elif kind == "offset":
        off = rng.choice([-50.0, 50.0])
        lw = [off + rng.uniform(-2, 0) for _ in range(n)]
    elif kind == "two_heavy":
        lw = [rng.uniform(-12, -8) for _ in range(n)]
        for i in rng.sample(range(n), min(2, n)):
            lw[i] = rng.uniform(-1, 0)
    else:
        lw = [rng.uniform(-4, 0) for _ in range(n)]
    return kind, lw


def gen_case(rng, tier):
    n = rng.choice([1, 2, 2, 3, 3, 4, 5, 6, 8])
    c = gfi.gen_model_case(rng, tier, depth=rng.choice([0, 0, 1]), max_blocks=2)
    # at least one continuous site so that lanes are distinct
    if not any(b["k"] == "site" and b["d"] in progs.CONT for b in c["model"]["blocks"]):
        c["model"]["blocks"].append({"k": "site", "a": "zz", "d": "normal", "kw": False})
    kind, lw = gen_weights(rng, n)
    method = rng.choice(["systematic", "categorical"])
    mode = "sweep" if method == "systematic" else ("tree" if n <= 4 and rng.random() < 0.6 else "sampled")
    # earlier resampling steps of the same process, with other particle counts and methods (history)
    c["warm"] = [{"n": rng.choice([2, 3, 5, 8, 16]), "method": rng.choice(["systematic", "categorical"])}
                 for _ in range(rng.choice([0, 0, 1, 2]))]
    c.update({"n": n, "wkind": kind, "logw": [None if x == -math.inf else round(x, 4) for x in lw],
              "method": method, "mode": mode, "sseed": rng.randint(0, 2**30),
              "lme0": round(rng.uniform(-3, 3), 3), "grid": 65 if tier == "quick" else 257})
    return c


def build_particles(case):
    model, h, n = case["model"], case["h"], case["n"]
    gf = progs.build(model)
    script = gfi.RefScript(case["sseed"])
    p0, _ = run_scripted(lambda: init(gf, (h,), const(n), {}), script)
    lw = jnp.asarray([-jnp.inf if x is None else x for x in case["logw"]], dtype=jnp.float32)
    return ParticleCollection(traces=p0.traces, log_weights=lw, diagnostic_weights=p0.diagnostic_weights,
                              n_samples=p0.n_samples, log_marginal_estimate=jnp.asarray(case["lme0"], dtype=jnp.float32))


def check_one(case, parts, out, viol, tag):
    """Per-script checks; returns the copy counts per source index (or None)."""
    n = case["n"]
    sig = dict(method=case["method"], wkind=case["wkind"])
    lw = np.asarray(parts.log_weights, dtype=np.float64)
    if int(out.n_samples.value) != n or any(np.shape(l)[0] != n for l in jtu.tree_leaves(out.traces)):
        viol.append(V("wrong_count", "same_number_of_particles", f"{tag}: output does not have {n} particles", **sig))
        return None
    src_lanes = [jtu.tree_map(lambda x: x[i], parts.traces) for i in range(n)]
    counts = np.zeros(n, dtype=int)
    for j in range(n):
        lane = jtu.tree_map(lambda x: x[j], out.traces)
        srcs = [i for i in range(n) if world.bit_equal(lane, src_lanes[i])]
        if not srcs:
            viol.append(V("unfaithful_copy", "each_output_is_copy_of_one_source",
                          f"{tag}: output particle {j} is not an exact copy (all trace fields from one index) of any input particle",
                          **sig))
            return None
        live = [i for i in srcs if np.isfinite(lw[i])]
        if not live:
            viol.append(V("unfaithful_copy", "zero_weight_particle_never_copied",
                          f"{tag}: output particle {j} copies input {srcs} whose weight is zero", **sig))
            return None
        counts[live[0]] += 1
    if not np.all(np.asarray(out.log_weights) == 0.0):
        viol.append(V("weights_not_reset", "log_weights_zero", f"{tag}: log_weights={world.to_py(out.log_weights)}", **sig))
    a, b = float(parts.log_marginal_likelihood()), float(out.log_marginal_likelihood())
    if not world.close(a, b, 1e-5, 1e-5):
        viol.append(V("estimate_changed", "log_marginal_likelihood_unchanged", f"{tag}: lml before {a}, after {b}", **sig))
    m = np.max(lw)
    wn = lw - (m + math.log(np.sum(np.exp(lw - m))))
    if not world.close(np.asarray(out.diagnostic_weights), wn, 1e-4, 1e-4):
        viol.append(V("diagnostics", "diagnostic_weights_are_pre_resampling_normalised",
                      f"{tag}: diagnostic {world.to_py(out.diagnostic_weights)} vs {np.round(wn, 5).tolist()}", **sig))
    return counts


def run_case(case):
    viol = []
    probes = {"sweep": 0, "tree": 0, "tree_complete": 0, "sampled": 0, "scripts": 0, "boundary_points": 0,
              "w_" + case["wkind"]: 1, "n_%d" % case["n"]: 1}
    n = case["n"]
    evals = 0
    try:
        for i, wm in enumerate(case.get("warm", [])):
            wcase = dict(case, n=wm["n"], logw=[round(-0.37 * (j % 4), 2) for j in range(wm["n"])])
            wparts = build_particles(wcase)
            run_scripted(lambda: resample(wparts, method=wm["method"]), gfi.RefScript(case["sseed"] + 17 + i))
            probes["warm_steps"] = probes.get("warm_steps", 0) + 1
        parts = build_particles(case)
        lw = np.asarray(parts.log_weights, dtype=np.float64)
        m = np.max(lw)
        w = np.exp(lw - (m + math.log(np.sum(np.exp(lw - m)))))
        sig = dict(method=case["method"], wkind=case["wkind"])
        if case["method"] == "systematic":
            grid = case["grid"]
            us = [(k + 0.5) / grid for k in range(grid)]
            cum = np.cumsum(w)
            bnd = []
            for c in cum[:-1]:
                for j in range(n):
                    u = c * n - j
                    for e in (-1e-4, 1e-4):
                        if 0 < u + e < 1:
                            bnd.append(u + e)
            bnd += [1e-6, 1 - 1e-6]
            acc = np.zeros(n)
            for idx, u in enumerate(us + bnd):
                out, log = run_scripted(lambda: resample(parts, method="systematic"), [np.float32(u)])
                evals += 1
                if len(log) != 1:
                    viol.append(V("routing", "one_offset_drawn", f"systematic resampling consulted {len(log)} sites", **sig))
                    break
                counts = check_one(case, parts, out, viol, f"offset u={u:.6f}")
                if viol:
                    break
                lo = np.floor(n * w - 1e-4)
                hi = np.ceil(n * w + 1e-4)
                if np.any(counts < lo) or np.any(counts > hi):
                    i = int(np.argmax((counts < lo) | (counts > hi)))
                    viol.append(V("wrong_copies", "systematic_floor_or_ceil",
                                  f"offset u={u:.6f}: particle {i} with N*w={n * w[i]:.5f} got {counts[i]} copies "
                                  f"(weights {np.round(w, 5).tolist()})", **sig))
                    break
                if idx < grid:
                    acc += counts
            probes["sweep"] = 1
            probes["boundary_points"] = len(bnd)
            if not viol:
                mean = acc / grid
                if np.max(np.abs(mean - n * w)) > 2.0 * n / grid + 1e-3:
                    viol.append(V("biased", "expected_copies_is_N_w",
                                  f"grid average of copies {np.round(mean, 4).tolist()} vs N*w {np.round(n * w, 4).tolist()}", **sig))
        elif case["mode"] == "tree":
            tot = 0.0
            acc = np.zeros(n)
            leaves = 0
            for out, P, path in otree.explore(lambda s: run_scripted(lambda: resample(parts, method="categorical"), s)[0],
                                              outcomes=lambda site: otree.discrete_outcomes(site, max_joint=300),
                                              max_leaves=400):
                leaves += 1
                evals += 1
                if P == 0.0:
                    tot += P
                    continue
                counts = check_one(case, parts, out, viol, f"tree leaf {path}")
                if viol:
                    break
                tot += P
                acc += P * counts
            probes["tree"] = 1
            if not viol:
                probes["tree_complete"] = 1
                if not world.close(tot, 1.0, 1e-5, 1e-5):
                    viol.append(V("wrong_distribution", "tree_total_probability", f"sum P = {tot}", **sig))
                elif np.max(np.abs(acc - n * w)) > 1e-4:
                    viol.append(V("biased", "expected_copies_is_N_w",
                                  f"exact E[copies] {np.round(acc, 5).tolist()} vs N*w {np.round(n * w, 5).tolist()}", **sig))
        else:
            script = gfi.RefScript(case["sseed"] + 1)
            reps = 6
            for r in range(reps):
                out, log = run_scripted(lambda: resample(parts, method="categorical"), script)
                evals += 1
                check_one(case, parts, out, viol, f"sampled script {r}")
                if viol:
                    break
            probes["sampled"] = 1
        probes["scripts"] = evals
    except otree.TreeBudget:
        probes["tree_budget"] = 1
    except Exception as e:
        viol.append(gfi.exc_violation(e, "resample", method=case["method"]))
    return {"violations": viol, "steps": evals, "probes": probes, "faults": {}, "evals": evals,
            "key": f"{progs.shape_key(case['model'])}|{case['n']}|{case['wkind']}|{case['method']}|{case['mode']}",
            "nontrivial": case["n"] >= 2,
            "extra": {"trees_complete": probes.get("tree_complete", 0)}}


def shrink(case):
    for m in gfi.shrink_model(case["model"]):
        c = copy.deepcopy(case)
        c["model"] = m
        yield c
    if case["n"] > 1:
        c = copy.deepcopy(case)
        c["n"] -= 1
        c["logw"] = c["logw"][: c["n"]]
        if all(x is None for x in c["logw"]):
            c["logw"][0] = 0.0
        yield c
    if case["grid"] > 9:
        c = copy.deepcopy(case)
        c["grid"] = 9
        yield c
    for i in range(len(case.get("warm", []))):
        c = copy.deepcopy(case)
        del c["warm"][i]
        yield c
