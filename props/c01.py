"""C01 - assess is the model's joint log density; simulate samples exactly from it.

Workload: a generated program (all combinators, shared/disjoint Cond addresses, kwargs, event-shaped
sites) and a seeded history of operations: REAL simulate under eager/jit/vmap-of-keys/jit(vmap),
SCRIPTED simulate (every site answered by the reference sampler from the parameters the
implementation passed), assess on reference-generated in-support choice maps, outcome trees for
small discrete programs, and faults (failing neighbour operations) between them.
"""

import copy
import math
import numpy as np
import jax
import jax.numpy as jnp

from sim import world, progs, ref, gfi, otree, bare
from sim.gfi import V
from sim.scripted import run_scripted
from genjax import pjax as gpjax

PROP = "C01"
DISCRETE = ["flip", "bernoulli", "categorical"]


def gen_case(rng, tier):
    if rng.random() < 0.12:
        # a bare Distribution / Vmap-of-Distribution used directly through the GFI (sim/bare.py)
        return bare.gen_case(rng, tier, "simulate")
    tree = rng.random() < 0.25
    if tree:
        c = gfi.gen_model_case(rng, tier, depth=rng.choice([0, 1, 1]), dists=DISCRETE, max_blocks=2)
        c["ops"] = [{"op": "tree"}]
        return c
    if rng.random() < 0.2:
        # every site from one location-scale family: noise shared by any two positions of the program
        # (statements, scan steps, lanes, sub-calls) is then visible in the standardised draws
        fam = rng.choice([["normal", "normal_s"], ["laplace"], ["uniform"], ["exponential"]])
        site = lambda a: {"k": "site", "a": a, "d": rng.choice(fam), "kw": False}
        blocks = []
        for i in range(rng.randint(3, 5)):
            a = "abcdefgh"[i]
            r = rng.random()
            if r < 0.35:
                blocks.append({"k": "scan", "a": a, "n": rng.randint(1, 3), "m": {"blocks": [site("ab"[j]) for j in range(rng.randint(1, 2))]}})
            elif r < 0.7:
                blocks.append(site(a))
            elif r < 0.85:
                blocks.append({"k": "vsite", "a": a, "d": rng.choice(fam), "n": rng.randint(2, 3), "mode": rng.choice(["all", "repeat"])})
            else:
                blocks.append({"k": "call", "a": a, "m": {"blocks": [site("ab"[j]) for j in range(rng.randint(1, 2))]}})
        c = {"model": {"blocks": blocks}, "h": round(rng.uniform(-1.0, 1.0), 3)}
        c["ops"] = [{"op": "simulate", "cfg": rng.choice(["eager", "jit", "vmap"]), "key": rng.randint(0, 2**30)}
                    for _ in range(rng.randint(1, 2))]
        return c
    c = gfi.gen_model_case(rng, tier)
    ops = []
    n = rng.randint(2, 5 if tier == "quick" else 8)
    nb = progs.n_blocks(c["model"])
    for _ in range(n):
        r = rng.random()
        if r < 0.35:
            cfg = rng.choice(["eager", "eager", "jit", "vmap"] + (["jitvmap"] if tier == "thorough" else []))
            ops.append({"op": "simulate", "cfg": cfg, "key": rng.randint(0, 2**30)})
        elif r < 0.65:
            ops.append({"op": "simulate_scripted", "sseed": rng.randint(0, 2**30)})
        elif r < 0.78:
            ops.append({"op": "assess_ref", "rseed": rng.randint(0, 2**30), "cfg": rng.choice(["eager", "eager", "jit"])})
        elif r < 0.85:
            # REAL regime, distribution level: probability integral transform of every continuous scalar draw
            ops.append({"op": "pit", "key": rng.randint(0, 2**30), "n": 500 if tier == "quick" else 1500})
        else:
            k = rng.choice(["assess_missing", "exc_site", "collision", "assess_extra_arity"])
            op = {"op": "fault", "kind": k, "key": rng.randint(0, 2**30)}
            if k == "exc_site":
                op["at"] = rng.randrange(max(nb, 1))
                op["method"] = rng.choice(["simulate", "assess"])
            ops.append(op)
    kw_sites = []
    progs.walk(c["model"], lambda b, p: kw_sites.append(1) if b.get("kw") else None)
    if kw_sites and rng.random() < 0.7:
        # keyword-parameterised sites go through another flattening of the sampler's arguments: check the
        # distribution of the seeded draws, not only the coherence of each trace
        ops.append({"op": "pit", "key": rng.randint(0, 2**30), "n": 500 if tier == "quick" else 1500})
    if not any(o["op"] != "fault" for o in ops) or ops[-1]["op"] == "fault":
        ops.append({"op": "simulate", "cfg": "eager", "key": rng.randint(0, 2**30)})
    c["ops"] = ops
    return c


def run_case(case):
    if "bare" in case:
        return bare.run_case(case)
    model, h = case["model"], case["h"]
    gf = progs.build(model)
    viol = []
    faults = {}
    probes = {"simulate": 0, "scripted": 0, "assess_ref": 0, "tree": 0, "tree_complete": 0, "tree_leaves": 0,
              "cond_dead_branch": 0, "after_fault_ok": 0}
    steps = 0
    evals = 0
    after_fault = False
    hist = []
    for op in case["ops"]:
        steps += 1
        kind = op["op"]
        hist.append(kind if kind != "fault" else "fault:" + op["kind"])
        try:
            if kind == "simulate":
                tr = gfi.execute(op["cfg"], gf.simulate, op["key"], h)
                vs, r = gfi.coherence(tr, model, h, "simulate/" + op["cfg"])
                viol += gfi.convert(vs, op="simulate", cfg=op["cfg"])
                evals += 1
                probes["simulate"] += 1
                if r is not None:
                    lp, rv = gf.assess(tr.get_choices(), h)
                    if not world.close(float(lp), -float(tr.get_score()), rtol=1e-4, atol=1e-4):
                        viol.append(V("incoherent", "score_is_minus_assess",
                                      f"simulate/{op['cfg']}: score={float(tr.get_score())} assess={float(lp)}", op="simulate"))
                    if not world.close(rv, tr.get_retval(), rtol=1e-4, atol=1e-4):
                        viol.append(V("incoherent", "assess_retval", "assess retval differs from the trace's", op="assess"))
                    ld = gf.log_density(tr.get_choices(), h)
                    if not world.close(float(ld), float(lp), rtol=1e-5, atol=1e-5):
                        viol.append(V("incoherent", "log_density", "log_density != assess", op="log_density"))
                    a = tr.get_args()
                    if not (isinstance(a, tuple) and len(a) == 2 and world.close(a[0][0], h, 1e-6, 1e-6)):
                        viol.append(V("incoherent", "args_round_trip", f"get_args()={a!r}", op="simulate"))
                    if any(not s["live"] for s in r.sites) or r.hidden_lanes:
                        probes["cond_dead_branch"] += 1
                    # choices follow the *joint* density: no two choices of one seeded run are driven by the
                    # same noise (suspect pairs are confirmed under two fresh keys before being reported)
                    sus = gfi.shared_noise_pairs(r.sites)
                    for extra in (1, 2):
                        if not sus:
                            break
                        probes["shared_noise_suspect"] = probes.get("shared_noise_suspect", 0) + 1
                        tr_x = gfi.execute(op["cfg"], gf.simulate, op["key"] + extra, h)
                        sus &= gfi.shared_noise_pairs(ref.run(model, h, gfi.np_choices(tr_x)).sites)
                    if sus:
                        a, b = sorted(sus)[0]
                        viol.append(V("shared_randomness", "choices_follow_the_joint_density",
                                      f"simulate/{op['cfg']}: the choices at {'/'.join(a[0])}{list(a[1])} and {'/'.join(b[0])}{list(b[1])} "
                                      "are driven by the same noise under three different keys (perfectly dependent draws)",
                                      op="simulate", cfg=op["cfg"]))
            elif kind == "simulate_scripted":
                script = gfi.RefScript(op["sseed"])
                tr, log = run_scripted(gf.simulate, script, h)
                vs, r = gfi.coherence(tr, model, h, "simulate/scripted")
                viol += gfi.convert(vs, op="simulate", cfg="scripted")
                evals += 1
                probes["scripted"] += 1
                if r is not None and not vs:
                    un_ref, un_lanes = gfi.match_sites(r.sites, script.lanes, script=script)
                    if un_ref:
                        viol.append(V("routing", "site_params_and_value",
                                      "a choice in the trace was not produced by a site consulted with the reference's "
                                      "parameters: " + gfi.site_str(un_ref[0]), op="simulate"))
                    elif len(un_lanes) != r.hidden_lanes:
                        viol.append(V("routing", "sites_consulted_exactly_once",
                                      f"{len(un_lanes)} consulted lanes do not appear in the trace, expected "
                                      f"{r.hidden_lanes} (hidden Cond branch)", op="simulate"))
                    # outcome by outcome: the density of the consulted draws is the reported score
                    lp = sum(ref.logpdf(ln["d"], ln["value"], *ln["params"]) for ln in getattr(script, "aligned", script.lanes))
                    lp_dead = sum(ref.logpdf(ln["d"], ln["value"], *ln["params"]) for ln in un_lanes)
                    lp_dead += sum(s["logp"] for s in r.sites if not s["live"])
                    if not un_ref and len(un_lanes) == r.hidden_lanes and \
                            not world.close(lp - lp_dead, -float(tr.get_score()), **gfi.TOL):
                        viol.append(V("incoherent", "score_is_density_of_draws",
                                      f"sum of site log-probs {lp - lp_dead} != -score {-float(tr.get_score())}", op="simulate"))
            elif kind == "assess_ref":
                rr = ref.run(model, h, None, rng=np.random.default_rng(op["rseed"]))
                ch = gfi.to_jnp(rr.choices)
                lp, rv = gfi.execute_det(op["cfg"], gf.assess, ch, h)
                evals += 1
                probes["assess_ref"] += 1
                if not world.close(float(lp), rr.logp, **gfi.TOL):
                    viol.append(V("wrong_density", "assess_is_sum_of_site_logps",
                                  f"assess={float(lp)} ref={rr.logp} on reference-generated choices", op="assess", cfg=op["cfg"]))
                if not world.close(rv, rr.retval, **gfi.TOL):
                    viol.append(V("wrong_density", "assess_retval_is_program_value",
                                  f"assess retval={world.to_py(rv)} ref={rr.retval}", op="assess", cfg=op["cfg"]))
            elif kind == "pit":
                evals += 1
                probes["pit"] = probes.get("pit", 0) + 1
                viol += pit_test(gf, model, h, op["key"], op["n"], probes)
            elif kind == "tree":
                tv, info = run_tree(gf, model, h)
                viol += tv
                evals += info["leaves"]
                probes["tree"] += 1
                probes["tree_complete"] += int(info["complete"])
                probes["tree_leaves"] += info["leaves"]
            elif kind == "fault":
                fired = do_fault(op, model, h, gf)
                if fired:
                    faults[fired] = faults.get(fired, 0) + 1
                after_fault = True
                continue
            if after_fault and not viol:
                probes["after_fault_ok"] += 1
            after_fault = False
        except Exception as e:
            viol.append(gfi.exc_violation(e, kind, cfg=op.get("cfg")))
        if not world.globals_clean():
            probes["leak_seen"] = probes.get("leak_seen", 0) + 1
        if viol:
            break
    comb = progs.combinators(model)
    return {"violations": viol, "steps": steps, "faults": faults, "probes": probes, "evals": evals,
            "key": progs.shape_key(model) + "|" + ",".join(hist),
            "nontrivial": bool(comb) or bool(faults),
            "extra": {"trees_complete": probes["tree_complete"]}}


def _cdf(d, x, p):
    import scipy.stats as st

    if d not in ("normal", "normal_s", "laplace", "uniform", "exponential", "gamma", "beta"):
        return None
    x = float(x)
    p = [float(q) for q in p]
    if d in ("normal", "normal_s"):
        return st.norm.cdf((x - p[0]) / p[1])
    if d == "laplace":
        return st.laplace.cdf((x - p[0]) / p[1])
    if d == "uniform":
        return (x - p[0]) / (p[1] - p[0])
    if d == "exponential":
        return st.expon.cdf(x * p[0])
    if d == "gamma":
        return st.gamma.cdf(x * p[1], p[0])
    if d == "beta":
        return st.beta.cdf(x, p[0], p[1])
    return None


def pit_test(gf, model, h, key_int, n, probes):
    """simulate under seed, vmapped over n keys: for every continuous scalar draw, u = CDF(value; the
    parameters the reference derives from that trace's earlier choices) must be Uniform(0,1). Two-stage
    (p < 1e-3 on n traces, then p < 1e-8 on 6n traces with fresh keys)."""
    import scipy.stats as st

    f = jax.jit(jax.vmap(gpjax.seed(gf.simulate), in_axes=(0, None)))

    def us(key_i, m):
        trs = f(jax.random.split(jax.random.key(key_i), m), h)
        chs = gfi.np_choices(trs)
        out = {}
        for i in range(m):
            r = ref.run(model, h, ref.tree_index(chs, i))
            for s in r.sites:
                if not s["live"] or np.ndim(s["value"]) != 0:
                    continue
                u = _cdf(s["d"], s["value"], s["params"])
                if u is None and progs.DISTS[s["d"]]["kind"] == "d":
                    # randomised PIT for a discrete draw: F(k-) + v * p(k) with a reproducible v
                    sup = ref.support(s["d"], *s["params"])
                    pm = [math.exp(ref.logpdf(s["d"], v, *s["params"])) for v in sup]
                    k = [j for j, v in enumerate(sup) if v == s["value"]]
                    if k:
                        vrand = ((key_i * 2654435761 + i * 40503 + len(out) * 97) % 1000003) / 1000003.0
                        u = sum(pm[: k[0]]) + vrand * pm[k[0]]
                if u is not None:
                    out.setdefault((tuple(s["path"]), tuple(s["idx"]), s["d"]), []).append(u)
        return out

    stage1 = us(key_int, n)
    bad = [k for k, v in stage1.items() if len(v) >= 100 and st.kstest(v, "uniform").pvalue < 1e-3]
    if not bad:
        return []
    probes["pit_stage2"] = probes.get("pit_stage2", 0) + 1
    stage2 = us(key_int + 1, 6 * n)
    for k in bad:
        v = stage2.get(k, [])
        if len(v) >= 100:
            pv = st.kstest(v, "uniform").pvalue
            if pv < 1e-8:
                return [V("wrong_distribution", "simulate_draws_follow_the_density",
                          f"seeded simulate over {len(v)} keys: the draws at {'/'.join(k[0])}{list(k[1])} ({k[2]}) do not follow their "
                          f"conditional density (KS p = {pv:.2e} after p < 1e-3 on a first batch)", op="simulate", cfg="jitvmap")]
    return []


def do_fault(op, model, h, gf):
    k = op["kind"]
    try:
        if k == "assess_missing":
            rr = ref.run(model, h, None, rng=np.random.default_rng(op["key"]))
            ch = dict(rr.choices)
            ch.pop(sorted(ch)[0])
            gf.assess(gfi.to_jnp(ch), h)
        elif k == "collision":
            from genjax import gen, normal

            @gen
            def dup(x):
                a = normal(x, 1.0) @ "a"
                return normal(a, 1.0) @ "a"

            gpjax.seed(dup.simulate)(jax.random.key(op["key"]), h)
        elif k == "exc_site":
            f = {"at": op["at"], "n": 0}
            bad = progs.build(model, fault=f)
            if op["method"] == "simulate":
                gpjax.seed(bad.simulate)(jax.random.key(op["key"]), h)
            else:
                rr = ref.run(model, h, None, rng=np.random.default_rng(op["key"]))
                bad.assess(gfi.to_jnp(rr.choices), h)
        elif k == "assess_extra_arity":
            gf.assess({}, h, h, h)
    except BaseException as e:
        if isinstance(e, (KeyboardInterrupt, SystemExit)):
            raise
        return "exc@site" if k == "exc_site" else "usererr"
    return None


def run_tree(gf, model, h, max_leaves=2048):
    """Outcome tree of simulate for a discrete program: sum P == 1 and, outcome by outcome,
    the total probability of the scripts producing a choice map equals exp(-score) == exp(assess)."""
    viol = []
    groups = {}
    total = 0.0
    leaves = 0
    complete = True
    try:
        for tr, P, path in otree.explore(lambda s: run_scripted(gf.simulate, s, h)[0], max_leaves=max_leaves):
            leaves += 1
            total += P
            ch = gfi.np_choices(tr)
            # group by the *live* choices: with disjoint Cond addresses the un-taken branch's draws
            # are carried in the choice map but are not choices of the program (no density term)
            r0 = ref.run(model, h, ch)
            key = repr([(s["path"], s["idx"], np.asarray(s["value"]).tolist()) for s in r0.sites if s["live"]])
            g = groups.setdefault(key, {"P": 0.0, "score": float(tr.get_score()), "ch": ch, "logp": r0.logp})
            g["P"] += P
            if not world.close(g["score"], float(tr.get_score()), 1e-5, 1e-5):
                viol.append(V("incoherent", "score_function_of_choices", "same choices, different scores", op="tree"))
    except otree.TreeBudget:
        complete = False
    if complete:
        if not world.close(total, 1.0, 1e-6, 1e-6):
            viol.append(V("wrong_distribution", "tree_total_probability",
                          f"sum of script probabilities = {total} over {leaves} leaves", op="tree"))
        for key, g in groups.items():
            if not world.close(g["P"], np.exp(g["logp"]), 2e-4, 1e-6) or not world.close(g["P"], np.exp(-g["score"]), 2e-4, 1e-6):
                viol.append(V("wrong_distribution", "outcome_probability_is_density",
                              f"choices {world.to_py(g['ch'])}: simulated with probability {g['P']}, exp(-score)="
                              f"{np.exp(-g['score'])}, reference density {np.exp(g['logp'])}", op="tree"))
                break
    return viol, {"leaves": leaves, "complete": complete}


def shrink(case):
    if "bare" in case:
        yield from bare.shrink(case)
        return
    ops = case["ops"]
    for i in range(len(ops)):
        if len(ops) > 1:
            c = copy.deepcopy(case)
            del c["ops"][i]
            yield c
    for m in gfi.shrink_model(case["model"]):
        c = copy.deepcopy(case)
        c["model"] = m
        for o in c["ops"]:
            if "at" in o:
                o["at"] = min(o["at"], max(progs.n_blocks(m) - 1, 0))
        yield c
    for i, o in enumerate(ops):
        if o.get("cfg") not in (None, "eager"):
            c = copy.deepcopy(case)
            c["ops"][i]["cfg"] = "eager"
            yield c
    if case["h"] != 0.5:
        c = copy.deepcopy(case)
        c["h"] = 0.5
        yield c
