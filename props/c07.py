"""C07 - every sample site of a seeded run gets its own independent randomness.

TRACER regime: the real Seed interpreter runs generated program *shapes* (sequences, nested scans,
modular_vmap of scan, scan of modular_vmap, cond inside scan, sample_shape sites, nested seeds,
@gen calls) whose distributions return, as their value, the data of the key they were handed.
One run therefore yields the multiset of keys delivered to every (site, iteration, lane): they must
be pairwise distinct within a run and across runs with different top keys. REAL regime: equally
parameterised continuous sites never return equal values (confirmed with a second key before it
is reported), per-position marginals and pairwise correlations over key batches (two-stage test).
"""
import copy
import math
import numpy as np
import jax
import jax.numpy as jnp
import jax.tree_util as jtu

from sim import world, pf
from sim.gfi import V
from genjax import pjax as gpjax

PROP = "C07"


def gen_case(rng, tier):
    mode = rng.choice(["tracer", "tracer", "tracer", "real_distinct", "stat"])
    depth = rng.choice([1, 2, 2] if tier == "quick" else [2, 2, 3])
    if mode == "tracer":
        # a nested seed is given an explicit key by the user: inside a loop body the same key would be
        # handed in at every iteration (the user's own reuse), so nested seeds are generated outside loops
        body = pf.gen_pf(rng, depth=depth, dists=["keyprobe"], max_len=3, nseed_in_loops=False)
    elif mode == "real_distinct":
        d = rng.choice(pf.REAL_CONT)
        # no @gen statements here: they also emit the trace score, which is not a draw (for a uniform
        # site it is the constant log(high-low) at every iteration)
        body = pf.gen_pf(rng, depth=depth, dists=[d], max_len=3, nseed_in_loops=False,
                         allow=("site", "scan", "cond", "mvmap", "nseed"))
    else:
        body = pf.gen_pf(rng, depth=min(depth, 2), dists=["normal0"], max_len=2,
                         allow=("site", "scan", "mvmap"))
    if mode != "stat" and rng.random() < 0.3:
        # nested lanes with independent sizes and axis modes: (repetition, lane) cells must all get their
        # own stream whatever the relation between the two sizes (R < N, R = N, R > N)
        d = body[0]["d"] if body and body[0]["k"] == "site" else ("keyprobe" if mode == "tracer" else rng.choice(pf.REAL_CONT))
        site = lambda: {"k": "site", "d": d, "mode": rng.choice(["sample", "call"])}
        inner = {"k": "mvmap", "n": rng.randint(2, 5), "axes": rng.choice(["0", "0", "none"]),
                 "body": [site() for _ in range(rng.randint(1, 2))]}
        outer = {"k": "mvmap", "n": rng.randint(2, 4), "axes": rng.choice(["none", "none", "0"]),
                 "body": ([site()] if rng.random() < 0.3 else []) + [inner]}
        body = ([site()] if rng.random() < 0.5 else []) + [outer] + ([site()] if rng.random() < 0.5 else [])
    return {"mode": mode, "pf": body, "keys": [rng.randint(0, 2**31 - 1) for _ in range(3)],
            "acc0": round(rng.uniform(-1, 1), 3), "n": 4000 if tier == "quick" else 20000}


def _rows(outs):
    """All key fingerprints (uint32 pairs) in the outputs of a TRACER run."""
    rows = []
    for leaf in jtu.tree_leaves(outs):
        a = np.asarray(leaf)
        if a.dtype == np.uint32 and a.shape and a.shape[-1] == 2:
            rows.append(a.reshape(-1, 2))
    return np.concatenate(rows) if rows else np.zeros((0, 2), np.uint32)


def _floats(outs):
    vals = []
    for leaf in jtu.tree_leaves(outs):
        a = np.asarray(leaf)
        if a.dtype.kind == "f":
            vals.append(a.reshape(-1))
    return np.concatenate(vals) if vals else np.zeros((0,), np.float32)


def _dups(rows):
    if len(rows) == 0:
        return 0, None
    packed = rows[:, 0].astype(np.uint64) << np.uint64(32) | rows[:, 1].astype(np.uint64)
    u, idx, cnt = np.unique(packed, return_index=True, return_counts=True)
    d = int(np.sum(cnt - 1))
    first = None
    if d:
        k = u[np.argmax(cnt)]
        first = np.nonzero(packed == k)[0][:4].tolist()
    return d, first


def run_case(case):
    table = pf.dist_table()
    f = pf.build_pf(case["pf"], table)
    viol = []
    probes = {"tracer_runs": 0, "positions": 0, "real_distinct_runs": 0, "stat_runs": 0, "stat_positions": 0,
              "stage2": 0}
    for k in ("scan", "mvmap", "cond", "nseed", "gen"):
        if pf.has_kind(case["pf"], k):
            probes["shape_" + k] = 1
    if _nested(case["pf"], "scan", "mvmap"):
        probes["scan_of_vmap"] = 1
    if _nested(case["pf"], "mvmap", "scan"):
        probes["vmap_of_scan"] = 1
    if _nested(case["pf"], "scan", "cond"):
        probes["cond_in_scan"] = 1
    evals = 0
    try:
        if case["mode"] == "tracer":
            allrows = []
            for key in case["keys"][:2]:
                acc, outs = gpjax.seed(f)(jax.random.key(key), case["acc0"])
                rows = _rows(outs)
                probes["tracer_runs"] += 1
                probes["positions"] += len(rows)
                evals += 1
                d, where = _dups(rows)
                if d:
                    viol.append(V("shared_randomness", "keys_pairwise_distinct_within_run",
                                  f"{d} of {len(rows)} (site, iteration, lane) positions received a key that another "
                                  f"position of the same run also received (first positions {where})", mode="tracer"))
                    break
                allrows.append(rows)
            # nested seeds carry their own fixed key: their positions legitimately repeat across runs
            if not viol and len(allrows) == 2 and not pf.has_kind(case["pf"], "nseed"):
                d, where = _dups(np.concatenate(allrows))
                if d:
                    viol.append(V("shared_randomness", "keys_distinct_across_runs",
                                  f"{d} key(s) were delivered in two runs with different top-level keys", mode="tracer"))
        elif case["mode"] == "real_distinct":
            hits = []
            for key in case["keys"][:2]:
                acc, outs = gpjax.seed(f)(jax.random.key(key), case["acc0"])
                vals = _floats(outs)
                probes["real_distinct_runs"] += 1
                probes["positions"] += len(vals)
                evals += 1
                u, cnt = np.unique(vals, return_counts=True)
                hits.append(int(np.sum(cnt - 1)))
                if hits[-1] == 0:
                    break
                probes["stage2"] += 1
            if len(hits) == 2 and all(hits):
                viol.append(V("shared_randomness", "continuous_sites_never_equal",
                              f"equal continuous draws at different positions under two different keys ({hits})",
                              mode="real_distinct"))
        else:
            n = case["n"]
            g = jax.jit(jax.vmap(lambda k: gpjax.seed(f)(k, case["acc0"])[1]))
            for stage, (key, mult) in enumerate(((case["keys"][0], 1), (case["keys"][1], 8))):
                outs = g(jax.random.split(jax.random.key(key), n * mult))
                X = np.concatenate([np.asarray(l).reshape(n * mult, -1) for l in jtu.tree_leaves(outs)
                                    if np.asarray(l).dtype.kind == "f"], axis=1).astype(np.float64)
                probes["stat_runs"] += 1
                probes["stat_positions"] = X.shape[1]
                evals += 1
                bad = _stat_tests(X)
                if not bad:
                    break
                if stage == 0:
                    probes["stage2"] += 1
                    continue
                viol.append(V("dependent_randomness", bad[0], bad[1], mode="stat"))
    except Exception as e:
        from sim import gfi
        viol.append(gfi.exc_violation(e, "seed", mode=case["mode"]))
    return {"violations": viol, "steps": evals, "probes": probes, "faults": {}, "evals": evals,
            "key": case["mode"] + "|" + pf.shape_key(case["pf"]),
            "nontrivial": pf.count_sites(case["pf"]) >= 2 and len(case["pf"]) >= 1 and
            any(pf.has_kind(case["pf"], k) for k in ("scan", "mvmap", "cond", "nseed", "gen"))}


def _nested(body, outer, inner):
    for st in body:
        subs = [st[s] for s in ("body", "a", "b") if s in st]
        if st["k"] == outer and any(pf.has_kind(s, inner) for s in subs):
            return True
        if any(_nested(s, outer, inner) for s in subs):
            return True
    return False


def _stat_tests(X, z=5.4):
    """Positions are N(0,1) draws with history-independent parameters: marginal mean/variance/KS and
    pairwise correlations of values and of absolute values. Returns None or (clause, message)."""
    n, m = X.shape
    if m == 0:
        return None
    mu = X.mean(0) * math.sqrt(n)
    if np.max(np.abs(mu)) > z:
        return ("site_marginal_follows_its_distribution", f"position {int(np.argmax(np.abs(mu)))}: mean z={np.max(np.abs(mu)):.1f}")
    var = (X.var(0) - 1.0) * math.sqrt(n / 2.0)
    if np.max(np.abs(var)) > z:
        return ("site_marginal_follows_its_distribution", f"position {int(np.argmax(np.abs(var)))}: variance z={np.max(np.abs(var)):.1f}")
    if m > 1:
        C = np.corrcoef(X, rowvar=False) * math.sqrt(n)
        np.fill_diagonal(C, 0.0)
        if np.max(np.abs(C)) > z:
            i, j = np.unravel_index(np.argmax(np.abs(C)), C.shape)
            return ("draws_at_different_sites_independent", f"positions {i},{j}: correlation z={C[i, j]:.1f}")
        A = np.corrcoef(np.abs(X), rowvar=False) * math.sqrt(n)
        np.fill_diagonal(A, 0.0)
        if np.max(np.abs(A)) > z:
            i, j = np.unravel_index(np.argmax(np.abs(A)), A.shape)
            return ("draws_at_different_sites_independent", f"positions {i},{j}: |.| correlation z={A[i, j]:.1f}")
    return None


def shrink(case):
    from props.c06 import _shrink_body
    for b in _shrink_body(case["pf"]):
        c = copy.deepcopy(case)
        c["pf"] = b
        yield c
