"""C18 - chain returns exactly the burnt-in, thinned kernel iterates and diagnostics.

History refinement: run chain(kernel) under a script S (SCRIPTED) and, separately, fold the same
kernel in a Python loop under the same S; the retained traces must equal the loop states
burn_in + j*thin (0-based post-step states), accepts[j] the flag saved by that step,
acceptance_rate their mean, n_steps the retained count - for mh, mala, hmc, composite kernels saving
several diagnostics and a deterministic kernel with closed-form history. REAL: the thinned run with
key k equals the [burn_in::thin] slice of the un-thinned run with key k (bit equality).
n_chains > 1: leading chain axis, lane c equals the single-chain fold under lane c of the script.
"""
import copy
import numpy as np
import jax
import jax.numpy as jnp
import jax.tree_util as jtu

from sim import world, progs, ref, gfi, selections
from sim.gfi import V
from sim.scripted import run_scripted
from genjax import const, pjax as gpjax
from genjax.inference import mh, mala, hmc, chain
from genjax.state import save

PROP = "C18"


def gen_case(rng, tier):
    kern = rng.choice(["mh", "mh", "mala", "hmc", "composite", "deterministic", "sweeps", "sweeps"])
    dists = progs.CONT_REAL_LINE if kern in ("mala", "hmc", "deterministic") else progs.CONT_REAL_LINE + ["flip", "gamma"]
    c = gfi.gen_model_case(rng, tier, depth=rng.choice([0, 0, 1]), dists=dists, max_blocks=2,
                           kinds=["site", "call", "vsite", "scan"])
    paths = ref.model_paths(c["model"])
    n = rng.randint(1, 6 if tier == "quick" else 10)
    burn = rng.randint(0, n - 1)
    thin = rng.randint(1, 3)
    c.update({"kernel": kern, "sel": {"t": "all"} if rng.random() < 0.5 else {"t": "tuple", "p": list(rng.choice(paths))},
              "sel2": {"t": "tuple", "p": list(rng.choice(paths))},
              "step": rng.choice([0.05, 0.2]), "L": rng.randint(1, 2), "n_steps": n, "burn_in": burn, "thin": thin,
              "n_chains": rng.choice([1, 1, 1, 2, 3]), "regime": rng.choice(["scripted", "scripted", "real"]),
              "key": rng.randint(0, 2**30), "sseed": rng.randint(0, 2**30),
              # an earlier run of the *same* chain object with other settings (history)
              "pilot": rng.random() < 0.4})
    if kern == "deterministic":
        c["n_chains"] = 1
    return c


def make_kernel(case, gf):
    s1 = selections.build(case["sel"])
    s2 = selections.build(case["sel2"])
    k = case["kernel"]
    if k == "mh":
        return lambda tr: mh(tr, s1)
    if k == "mala":
        return lambda tr: mala(tr, s1, case["step"])
    if k == "hmc":
        return lambda tr: hmc(tr, s1, case["step"], case["L"])
    if k == "composite":
        def kern(tr):
            tr = mh(tr, s1)
            save(first_stage_score=tr.get_score())
            tr = mh(tr, s2)  # a later write to `accept` replaces the earlier one
            save(another=jnp.float32(1.5))
            return tr
        return kern
    if k == "sweeps":
        # K mh sweeps per chain step in an inner loop: every save() sits inside the inner scan
        K = case["L"] + 1
        return lambda tr: jax.lax.fori_loop(0, K, lambda i, t: mh(t, s1), tr)
    if k == "deterministic":
        def kern(tr):
            # shifts every float choice by +1; "accepts" on odd visits: closed-form history
            ch = tr.get_choices()
            new = jtu.tree_map(lambda x: x + 1.0 if jnp.issubdtype(x.dtype, jnp.floating) else x, ch)
            a = tr.get_args()
            tr2, w, _ = gf.update(tr, new, *a[0], **a[1])
            first = jtu.tree_leaves(new)[0]
            save(accept=(jnp.round(jnp.ravel(first)[0] - jnp.floor(jnp.ravel(first)[0] / 2.0) * 2.0) >= 1.0))
            return tr2
        return kern
    raise ValueError(k)


def run_case(case):
    model, h = case["model"], case["h"]
    gf = progs.build(model)
    kern = make_kernel(case, gf)
    viol = []
    N, B, T, C = case["n_steps"], case["burn_in"], case["thin"], case["n_chains"]
    probes = {"k_" + case["kernel"]: 1, "regime_" + case["regime"]: 1, "chains_%d" % min(C, 2): 1,
              "thin_gt1": int(T > 1), "burn_gt0": int(B > 0)}
    sig = dict(kernel=case["kernel"], regime=case["regime"], n_chains=C)
    evals = 0
    try:
        tr0 = gpjax.seed(gf.simulate)(jax.random.key(case["key"]), h)
        idx = list(range(B, N, T))
        ch = chain(kern)  # one chain object for every call of this history
        if case.get("pilot"):
            probes["pilot_run"] = 1
            gpjax.seed(lambda: ch(tr0, const(N + 2), burn_in=const(1), n_chains=const(C)))(jax.random.key(case["key"] + 7))
        run = lambda: ch(tr0, const(N), burn_in=const(B), autocorrelation_resampling=const(T), n_chains=const(C))
        if case["regime"] == "real":
            key = jax.random.key(case["key"] + 1)
            res = gpjax.seed(run)(key)
            full = gpjax.seed(lambda: ch(tr0, const(N), n_chains=const(C)))(key)
            evals += 2
            take = (lambda x: x[:, jnp.asarray(idx)]) if C > 1 else (lambda x: x[jnp.asarray(idx)])
            want_traces = jtu.tree_map(take, full.traces)
            if not world.bit_equal(res.traces, want_traces):
                viol.append(V("wrong_slice", "thinned_equals_slice_of_unthinned",
                              f"chain(n={N}, burn_in={B}, thin={T}, chains={C}) with key k differs from the [burn_in::thin] "
                              "slice of the un-thinned run with the same key", **sig))
            if not viol and not world.bit_equal(res.accepts, take(full.accepts)):
                viol.append(V("wrong_diagnostics", "accepts_are_those_of_retained_steps",
                              "accepts differ from the slice of the un-thinned accepts", **sig))
            viol += structural(res, case, idx, sig)
        else:
            rec = Recorder(case["sseed"])
            res, log = run_scripted(run, rec)
            evals += 1
            viol += structural(res, case, idx, sig)
            for c in range(C):
                if viol:
                    break
                # fold the kernel in a Python loop under lane c of the same script
                pos = [0]

                def lane_script(site, c=c):
                    v = rec.values[pos[0]]
                    pos[0] += 1
                    return v[c] if C > 1 else v

                states, accs = [], []
                tr = tr0
                from genjax.state import state
                for i in range(N):
                    (tr, st), _ = run_scripted(lambda t: state(kern)(t), lane_script, tr)
                    states.append(tr)
                    accs.append(st.get("accept"))
                evals += 1
                if pos[0] != len(rec.values):
                    viol.append(V("wrong_history", "same_randomness_consumed",
                                  f"the {N}-step fold consumed {pos[0]} draws, chain consumed {len(rec.values)}", **sig))
                    break
                lane = (lambda x: x[c]) if C > 1 else (lambda x: x)
                for j, i in enumerate(idx):
                    got = jtu.tree_map(lambda x: lane(x)[j], res.traces)
                    ok, _ = world.tree_close(got, states[i], rtol=1e-5, atol=1e-6)
                    if not ok:
                        viol.append(V("wrong_history", "retained_state_is_kernel_iterate",
                                      f"retained state {j} (chain {c}) is not the state after step {i + 1} of the folded kernel "
                                      f"(n={N}, burn_in={B}, thin={T})", **sig))
                        break
                    a_got, a_want = np.asarray(lane(res.accepts)[j]), (None if accs[i] is None else np.asarray(accs[i]))
                    if a_want is None or a_got.shape != a_want.shape or not np.array_equal(a_got.astype(bool), a_want.astype(bool)):
                        viol.append(V("wrong_diagnostics", "accepts_are_those_of_retained_steps",
                                      f"accepts[{j}]={a_got.tolist()} but step {i + 1} saved accept={None if a_want is None else a_want.tolist()}", **sig))
                        break
            if case["kernel"] == "deterministic" and not viol:
                first0 = float(np.ravel(np.asarray(jtu.tree_leaves(tr0.get_choices())[0]))[0])
                leaf = np.asarray(jtu.tree_leaves(res.traces.get_choices())[0])
                got = leaf.reshape(leaf.shape[0], -1)[:, 0]
                want = np.asarray([first0 + (i + 1) for i in idx], dtype=np.float32)
                if not world.close(got, want, 1e-5, 1e-5):
                    viol.append(V("wrong_history", "closed_form_history", f"got {got.tolist()} want {want.tolist()}", **sig))
                probes["closed_form"] = 1
    except Exception as e:
        viol.append(gfi.exc_violation(e, "chain", **sig))
    return {"violations": viol, "steps": evals, "probes": probes, "faults": {}, "evals": evals,
            "key": f"{progs.shape_key(model)}|{case['kernel']}|{N},{B},{T},{C}|{case['regime']}",
            "nontrivial": N > 1 and (B > 0 or T > 1 or C > 1)}


class Recorder(gfi.RefScript):
    def __init__(self, seed):
        super().__init__(seed)
        self.values = []

    def __call__(self, site):
        v = super().__call__(site)
        self.values.append(np.asarray(v))
        return v


def structural(res, case, idx, sig):
    viol = []
    C = case["n_chains"]
    n_ret = len(idx)
    if int(res.n_steps.value) != n_ret:
        viol.append(V("wrong_diagnostics", "n_steps_counts_retained", f"n_steps={res.n_steps.value}, retained {n_ret}", **sig))
    lead = (C, n_ret) if C > 1 else (n_ret,)
    for l in jtu.tree_leaves(res.traces):
        if tuple(np.shape(l)[: len(lead)]) != lead:
            viol.append(V("wrong_shape", "leading_axes_chain_then_step",
                          f"trace leaf has shape {np.shape(l)}, expected leading axes {lead}", **sig))
            break
    extra = (case["L"] + 1,) if case["kernel"] == "sweeps" else ()
    if tuple(np.shape(res.accepts)) != lead + extra:
        viol.append(V("wrong_shape", "accepts_shape", f"accepts shape {np.shape(res.accepts)} expected {lead + extra}", **sig))
    elif n_ret and not world.close(float(res.acceptance_rate), float(np.mean(np.asarray(res.accepts, dtype=np.float64))), 1e-5, 1e-6):
        viol.append(V("wrong_diagnostics", "acceptance_rate_is_mean_of_accepts",
                      f"acceptance_rate={float(res.acceptance_rate)} mean(accepts)={float(np.mean(np.asarray(res.accepts)))}", **sig))
    if C > 1 and case["kernel"] != "deterministic" and n_ret:
        # chains use independent randomness: a selected continuous leaf that moved in both chains differs
        acc = np.asarray(res.accepts).reshape(C, -1)
        if bool(acc[0].any()) and bool(acc[1].any()):
            paths = [tuple(p) for p in ref.model_paths(case["model"])]
            S = [p for p in paths if selections.selected(p, case["sel"])]
            ch = gfi.np_choices(res.traces)
            cont = [p for p in S if {progs.DISTS[d]["kind"] for d, _ in ref.path_info(case["model"], p)} == {"c"}
                    and ref.get_path(ch, p) is not None]
            if cont and all(np.array_equal(np.asarray(ref.get_path(ch, p))[0], np.asarray(ref.get_path(ch, p))[1]) for p in cont):
                viol.append(V("shared_randomness", "chains_independent",
                              "chains 0 and 1 both accepted moves but hold identical values at every selected continuous address", **sig))
    return viol


def shrink(case):
    for m in gfi.shrink_model(case["model"]):
        c = copy.deepcopy(case)
        c["model"] = m
        valid = [list(p) for p in ref.model_paths(m)]
        for k in ("sel", "sel2"):
            if c[k]["t"] == "tuple" and c[k]["p"] not in valid:
                c[k] = {"t": "all"}
        yield c
    for k, lo in (("n_chains", 1), ("thin", 1), ("burn_in", 0)):
        if case[k] > lo:
            c = copy.deepcopy(case)
            c[k] -= 1
            yield c
    if case["n_steps"] > case["burn_in"] + 1:
        c = copy.deepcopy(case)
        c["n_steps"] -= 1
        yield c
