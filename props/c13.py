"""C13 - distributions: documented parameters, normalised density, matching sampler.

For each of the 24 exported distributions (and two user wrappers built with tfp_distribution /
distribution): seeded parameter draws across the domain and values across the support;
logpdf == scipy reference of the documented parameterisation; sum / integral of exp(logpdf) = 1;
sampler under seed, modular_vmap and sample_shape: shape and dtype exact, KS / chi-square against
the reference CDF / PMF with a two-stage rule (p < 1e-6 twice, second batch 8x larger, fresh key).
The logpdf and normalisation clauses are pure functions of their input (op-level comparisons);
the sampler clause is the simulated one (keys and vectorisation configuration are the schedule).
"""
import math
import copy
import numpy as np
import scipy.stats as st
import scipy.special as sp
from sim import world  # first: puts $VERIF_REPO/src in front and loads the JAX adapter
from sim.gfi import V, exc_violation
import jax
import jax.numpy as jnp

import genjax
from genjax import pjax as gpjax

PROP = "C13"


def _sig(x):
    return 1.0 / (1.0 + math.exp(-x))


# name -> dict(params(rng)->args tuple (positional) , ref(args) -> frozen scipy dist or custom,
#              kind 'c'|'d', dtype, support grid for normalisation)
def U(rng, a, b):
    return round(rng.uniform(a, b), 3)


SPECS = {
    "normal": dict(p=lambda r: (U(r, -3, 3), U(r, 0.2, 3)), ref=lambda a: st.norm(a[0], a[1]), kind="c"),
    "uniform": dict(p=lambda r: (lambda lo: (lo, lo + U(r, 0.3, 4)))(U(r, -3, 3)), ref=lambda a: st.uniform(a[0], a[1] - a[0]), kind="c"),
    "exponential": dict(p=lambda r: (U(r, 0.2, 4),), ref=lambda a: st.expon(scale=1 / a[0]), kind="c"),
    "gamma": dict(p=lambda r: (U(r, 0.5, 6), U(r, 0.3, 4)), ref=lambda a: st.gamma(a[0], scale=1 / a[1]), kind="c"),
    "beta": dict(p=lambda r: (U(r, 0.6, 6), U(r, 0.6, 6)), ref=lambda a: st.beta(a[0], a[1]), kind="c"),
    "laplace": dict(p=lambda r: (U(r, -3, 3), U(r, 0.2, 3)), ref=lambda a: st.laplace(a[0], a[1]), kind="c"),
    "log_normal": dict(p=lambda r: (U(r, -1, 1), U(r, 0.2, 1.2)), ref=lambda a: st.lognorm(s=a[1], scale=math.exp(a[0])), kind="c"),
    "student_t": dict(p=lambda r: (U(r, 1.5, 9), U(r, -2, 2), U(r, 0.3, 2)), ref=lambda a: st.t(a[0], a[1], a[2]), kind="c"),
    "half_normal": dict(p=lambda r: (U(r, 0.3, 3),), ref=lambda a: st.halfnorm(scale=a[0]), kind="c"),
    "inverse_gamma": dict(p=lambda r: (U(r, 1.5, 6), U(r, 0.4, 3)), ref=lambda a: st.invgamma(a[0], scale=a[1]), kind="c"),
    "weibull": dict(p=lambda r: (U(r, 0.8, 4), U(r, 0.4, 3)), ref=lambda a: st.weibull_min(a[0], scale=a[1]), kind="c"),
    "cauchy": dict(p=lambda r: (U(r, -2, 2), U(r, 0.3, 2)), ref=lambda a: st.cauchy(a[0], a[1]), kind="c"),
    "chi2": dict(p=lambda r: (U(r, 1.0, 9),), ref=lambda a: st.chi2(a[0]), kind="c"),
    "flip": dict(p=lambda r: (U(r, 0.05, 0.95),), ref=lambda a: st.bernoulli(a[0]), kind="d", dtype="bool", sup=lambda a: [0, 1]),
    "bernoulli": dict(p=lambda r: (U(r, -2.5, 2.5),), ref=lambda a: st.bernoulli(_sig(a[0])), kind="d", dtype="int32", sup=lambda a: [0, 1]),
    "geometric": dict(p=lambda r: (U(r, -1.5, 2.0),), ref=lambda a: st.geom(_sig(a[0]), loc=-1), kind="d", dtype="float32",
                      sup=lambda a: list(range(0, 400))),
    "poisson": dict(p=lambda r: (U(r, 0.3, 8),), ref=lambda a: st.poisson(a[0]), kind="d", dtype="float32", sup=lambda a: list(range(0, 80))),
    "binomial": dict(p=lambda r: (float(r.randint(1, 12)), U(r, -2, 2)), ref=lambda a: st.binom(int(a[0]), _sig(a[1])), kind="d",
                     dtype="float32", sup=lambda a: list(range(0, int(a[0]) + 1))),
    "negative_binomial": dict(p=lambda r: (float(r.randint(1, 8)), U(r, -2, 1)), ref=lambda a: st.nbinom(a[0], 1 - _sig(a[1])), kind="d",
                              dtype="float32", sup=lambda a: list(range(0, 600))),
    "zipf": dict(p=lambda r: (U(r, 1.8, 4),), ref=lambda a: st.zipf(a[0]), kind="d", dtype="int32", sup=lambda a: list(range(1, 5000)),
                 norm_tol=3e-2),
    "categorical": dict(p=lambda r: ([U(r, -2, 2) for _ in range(r.randint(2, 5))],), kind="cat", dtype="int32"),
    "multivariate_normal": dict(p=lambda r: _mvn_params(r), kind="mvn"),
    "dirichlet": dict(p=lambda r: ([U(r, 0.6, 5) for _ in range(r.randint(2, 4))],), kind="dirichlet"),
    "multinomial": dict(p=lambda r: (float(r.randint(1, 8)), [U(r, -1.5, 1.5) for _ in range(r.randint(2, 4))]), kind="multinomial"),
    # user wrappers through the public constructors
    "user_logistic": dict(p=lambda r: (U(r, -2, 2), U(r, 0.3, 2)), ref=lambda a: st.logistic(a[0], a[1]), kind="c", user="tfp"),
    "user_gumbel": dict(p=lambda r: (U(r, -2, 2), U(r, 0.3, 2)), ref=lambda a: st.gumbel_r(a[0], a[1]), kind="c", user="custom"),
    # a user wrapper whose constructor closes over non-scalar arrays (fixed mixture components)
    "user_mixture": dict(p=lambda r: (U(r, -2, 2), U(r, 0.4, 2)), ref=lambda a: _Mix(a[0], a[1]), kind="c", user="tfp_closure"),
}
EXPORTED = [n for n in SPECS if not n.startswith("user_")]
assert len(EXPORTED) == 24


def _mvn_params(r):
    k = r.randint(2, 3)
    A = np.array([[U(r, -1, 1) for _ in range(k)] for _ in range(k)])
    cov = A @ A.T + np.eye(k) * U(r, 0.3, 1.0)
    return ([U(r, -2, 2) for _ in range(k)], np.round(cov, 4).tolist())


MIX_LOCS, MIX_SCALES, MIX_W = [-1.5, 0.5, 2.0], [0.5, 1.0, 0.7], [0.2, 0.5, 0.3]


class _Mix:
    """Reference for user_mixture(shift, scale): sum_k w_k Normal(shift + scale*loc_k, scale*sc_k)."""

    def __init__(self, shift, scale):
        self.mu = shift + scale * np.asarray(MIX_LOCS)
        self.sd = scale * np.asarray(MIX_SCALES)
        self.w = np.asarray(MIX_W)

    def cdf(self, x):
        x = np.asarray(x, dtype=np.float64)
        return np.sum(self.w * st.norm.cdf((x[..., None] - self.mu) / self.sd), axis=-1)

    def logpdf(self, x):
        x = np.asarray(x, dtype=np.float64)
        return sp.logsumexp(np.log(self.w) + st.norm.logpdf(x[..., None], self.mu, self.sd), axis=-1)

    def ppf(self, q):
        lo, hi = float(np.min(self.mu - 12 * self.sd)), float(np.max(self.mu + 12 * self.sd))
        for _ in range(200):
            mid = 0.5 * (lo + hi)
            if self.cdf(mid) < q:
                lo = mid
            else:
                hi = mid
        return 0.5 * (lo + hi)


_USER = {}


def dist_obj(name):
    if name == "user_logistic":
        if name not in _USER:
            from tensorflow_probability.substrates import jax as tfp
            _USER[name] = genjax.tfp_distribution(tfp.distributions.Logistic, name="Logistic")
        return _USER[name]
    if name == "user_mixture":
        if name not in _USER:
            from tensorflow_probability.substrates import jax as tfp
            tfd = tfp.distributions
            locs, scs, logw = jnp.asarray(MIX_LOCS), jnp.asarray(MIX_SCALES), jnp.log(jnp.asarray(MIX_W))

            def ctor(shift, scale):
                shift, scale = jnp.asarray(shift), jnp.asarray(scale)
                return tfd.MixtureSameFamily(tfd.Categorical(logits=logw),
                                             tfd.Normal(shift[..., None] + scale[..., None] * locs, scale[..., None] * scs))

            _USER[name] = genjax.tfp_distribution(ctor, name="Mixture")
        return _USER[name]
    if name == "user_gumbel":
        if name not in _USER:
            def keyful(key, loc, scale, sample_shape=()):
                shp = tuple(sample_shape) + jnp.shape(jnp.asarray(loc) + jnp.asarray(scale))
                return loc + scale * jax.random.gumbel(key, shp)

            def logpdf(v, loc, scale):
                z = (v - loc) / scale
                return -(z + jnp.exp(-z)) - jnp.log(scale)

            from genjax.core import distribution as _distribution
            _USER[name] = _distribution(gpjax.wrap_sampler(keyful, name="Gumbel"), gpjax.wrap_logpdf(logpdf), name="Gumbel")
        return _USER[name]
    import genjax.distributions as gd
    return getattr(gd, name)


KWNAMES = {
    "normal": ("loc", "scale"), "uniform": ("low", "high"), "exponential": ("rate",), "gamma": ("concentration", "rate"),
    "beta": ("concentration1", "concentration0"), "laplace": ("loc", "scale"), "log_normal": ("loc", "scale"),
    "student_t": ("df", "loc", "scale"), "half_normal": ("scale",), "inverse_gamma": ("concentration", "scale"),
    "weibull": ("concentration", "scale"), "cauchy": ("loc", "scale"), "chi2": ("df",), "bernoulli": ("logits",),
    "geometric": ("logits",), "poisson": ("rate",), "binomial": ("total_count", "logits"),
    "negative_binomial": ("total_count", "logits"), "user_logistic": ("loc", "scale"),
}


def gen_case(rng, tier):
    name = rng.choice(list(SPECS))
    args = SPECS[name]["p"](rng)
    modes = ["sample_shape", "mvmap_lanes", "vmap_keys", "jit_sample_shape", "nested_lanes"]
    if name in KWNAMES:
        modes += ["kw_scalar_then_batched", "kw_batched_then_scalar"]
    return {"dist": name, "args": list(args), "args_b": list(SPECS[name]["p"](rng)), "mode": rng.choice(modes),
            "key": rng.randint(0, 2**30), "n": 3000 if tier == "quick" else 12000, "vseed": rng.randint(0, 2**30)}


def jargs(args):
    return tuple(jnp.asarray(a, dtype=jnp.float32) for a in args)


_LAST_B = {}


def draw(case, key_int, n):
    """n draws of the distribution through the configuration named by case['mode']."""
    d = dist_obj(case["dist"])
    a = jargs(case["args"])
    key = jax.random.key(key_int)
    mode = case["mode"]
    if mode == "sample_shape":
        return gpjax.seed(lambda: d.sample(*a, sample_shape=(n,)))(key)
    if mode == "jit_sample_shape":
        return jax.jit(gpjax.seed(lambda: d.sample(*a, sample_shape=(n,))))(key)
    if mode == "mvmap_lanes":
        lanes = tuple(jnp.broadcast_to(x, (n,) + x.shape) for x in a)
        return gpjax.seed(gpjax.modular_vmap(lambda *p: d.sample(*p), in_axes=0))(key, *lanes)
    if mode == "nested_lanes":
        # two lanes with *different* parameters (args, args_b) inside an outer level that maps nothing:
        # column j of the (repetition, lane) grid must follow lane j's parameters
        b = jargs(case.get("args_b") or case["args"])
        if any(x.shape != y.shape for x, y in zip(a, b)):
            b = a
        lanes = tuple(jnp.stack([x, y]) for x, y in zip(a, b))
        inner = lambda: gpjax.modular_vmap(lambda *p: d.sample(*p), in_axes=0)(*lanes)
        out = gpjax.seed(gpjax.modular_vmap(inner, in_axes=(), axis_size=n))(key)
        _LAST_B["x"] = np.asarray(out[:, 1])
        _LAST_B["same"] = b is a
        return out[:, 0]
    if mode in ("kw_scalar_then_batched", "kw_batched_then_scalar"):
        # documented keyword parameters; the same distribution object is used scalar and batched in one
        # process, in both orders ("scalar / batched / sample_shape use")
        names = KWNAMES[case["dist"]]
        kw_s = dict(zip(names, a))
        kw_b = {k_: jnp.broadcast_to(v, (n,)) for k_, v in kw_s.items()}
        f_s = lambda: d.sample(**kw_s)  # one draw, same (empty) sample_shape as the batched call
        f_b = lambda: d.sample(**kw_b)
        if mode == "kw_scalar_then_batched":
            gpjax.seed(f_s)(jax.random.fold_in(key, 1))
            return gpjax.seed(f_b)(key)
        gpjax.seed(f_b)(jax.random.fold_in(key, 1))
        return jax.vmap(gpjax.seed(f_s))(jax.random.split(key, n))
    return jax.jit(jax.vmap(gpjax.seed(lambda: d.sample(*a))))(jax.random.split(key, n))


# ------------------------------------------------------------------ reference pieces for the structured distributions


def cat_probs(logits):
    l = np.asarray(logits, dtype=np.float64)
    p = np.exp(l - l.max())
    return p / p.sum()


def ks_p(x, cdf):
    return st.kstest(np.asarray(x, dtype=np.float64), cdf).pvalue


def chi2_p(x, support, pmf):
    x = np.asarray(x)
    counts = np.array([np.sum(x == s) for s in support], dtype=np.float64)
    exp = np.asarray(pmf, dtype=np.float64) * len(x)
    other = len(x) - counts.sum()
    eo = len(x) - exp.sum()
    # pool cells with expectation < 5
    order = np.argsort(exp)
    c, e = [], []
    pc = other
    pe = max(eo, 0.0)
    for i in order:
        if pe < 5:
            pc += counts[i]
            pe += exp[i]
        else:
            c.append(counts[i])
            e.append(exp[i])
    if pe > 0:
        c.append(pc)
        e.append(pe)
    if len(c) < 2:
        return 1.0
    c, e = np.array(c), np.array(e)
    stat = np.sum((c - e) ** 2 / e)
    return float(st.chi2.sf(stat, len(c) - 1))


def sample_test(case, x):
    """Returns (p-value, description) of the sampler test for draws x (numpy)."""
    name = case["dist"]
    spec = SPECS[name]
    a = case["args"]
    kind = spec["kind"]
    if kind == "c":
        return ks_p(x, spec["ref"](a).cdf), "KS vs reference CDF"
    if kind == "d":
        r = spec["ref"](a)
        sup = [s for s in spec["sup"](a) if r.pmf(s) * len(x) > 0.01][:200] or spec["sup"](a)[:2]
        return chi2_p(x.astype(np.float64), sup, [r.pmf(s) for s in sup]), "chi-square vs reference PMF"
    if kind == "cat":
        p = cat_probs(a[0])
        return chi2_p(x, list(range(len(p))), p), "chi-square vs softmax(logits)"
    if kind == "mvn":
        mu, cov = np.asarray(a[0]), np.asarray(a[1])
        L = np.linalg.cholesky(cov)
        z = np.linalg.solve(L, (x.astype(np.float64) - mu).T).T
        ps = [ks_p(z[:, i], st.norm.cdf) for i in range(z.shape[1])]
        C = np.corrcoef(z, rowvar=False)
        zc = np.max(np.abs(C - np.eye(len(mu)))) * math.sqrt(len(x))
        ps.append(2 * st.norm.sf(zc) * len(mu) ** 2)
        return float(min(1.0, min(ps) * len(ps))), "whitened coordinates iid N(0,1)"
    if kind == "dirichlet":
        al = np.asarray(a[0])
        ps = [ks_p(x[:, i], st.beta(al[i], al.sum() - al[i]).cdf) for i in range(len(al))]
        return float(min(1.0, min(ps) * len(ps))), "marginals Beta(a_i, a_0 - a_i)"
    if kind == "multinomial":
        n_tr, p = int(a[0]), cat_probs(a[1])
        ps = [chi2_p(x[:, i], list(range(n_tr + 1)), st.binom(n_tr, p[i]).pmf(np.arange(n_tr + 1))) for i in range(len(p))]
        return float(min(1.0, min(ps) * len(ps))), "marginals Binomial(n, p_i)"
    raise ValueError(kind)


def ref_logpdf(case, v):
    name, a = case["dist"], case["args"]
    spec = SPECS[name]
    kind = spec["kind"]
    if kind == "c":
        return float(spec["ref"](a).logpdf(v))
    if kind == "d":
        return float(spec["ref"](a).logpmf(v))
    if kind == "cat":
        return float(np.log(cat_probs(a[0])[int(v)]))
    if kind == "mvn":
        return float(st.multivariate_normal(np.asarray(a[0]), np.asarray(a[1])).logpdf(np.asarray(v, dtype=np.float64)))
    if kind == "dirichlet":
        al = np.asarray(a[0])
        v = np.asarray(v, dtype=np.float64)
        return float(sp.gammaln(al.sum()) - sp.gammaln(al).sum() + np.sum((al - 1) * np.log(v)))
    if kind == "multinomial":
        return float(st.multinomial(int(a[0]), cat_probs(a[1])).logpmf(np.asarray(v)))
    raise ValueError(kind)


def values_across_support(case, rng):
    """Values across the support, edges included, for the logpdf comparison."""
    name, a = case["dist"], case["args"]
    spec = SPECS[name]
    kind = spec["kind"]
    if kind == "c":
        r = spec["ref"](a)
        qs = [1e-4, 1e-2, 0.1, 0.3, 0.5, 0.7, 0.9, 0.99, 1 - 1e-4]
        return [np.float32(r.ppf(q)) for q in qs]
    if kind == "d":
        sup = spec["sup"](a)
        r = spec["ref"](a)
        vals = [s for s in sup[:40] if r.pmf(s) > 1e-12][:12]
        dt = np.bool_ if spec.get("dtype") == "bool" else (np.int32 if spec.get("dtype") == "int32" else np.float32)
        return [dt(v) for v in vals]
    if kind == "cat":
        return [np.int32(i) for i in range(len(a[0]))]
    if kind == "mvn":
        mu, cov = np.asarray(a[0]), np.asarray(a[1])
        return [rng.multivariate_normal(mu, cov).astype(np.float32) for _ in range(5)] + [mu.astype(np.float32)]
    if kind == "dirichlet":
        return [np.clip(rng.dirichlet(np.asarray(a[0])), 1e-3, None).astype(np.float32) for _ in range(5)]
    if kind == "multinomial":
        return [rng.multinomial(int(a[0]), cat_probs(a[1])).astype(np.float32) for _ in range(5)]


def normalisation(case):
    """sum / integral of exp(genjax logpdf) over the support. Returns (total, tolerance) or None."""
    name, a = case["dist"], case["args"]
    spec = SPECS[name]
    kind = spec["kind"]
    d = dist_obj(name)
    ja = jargs(a)
    if kind == "c":
        r = spec["ref"](a)
        qlo = 2e-4 if name == "cauchy" else (1e-5 if name == "student_t" else 1e-6)
        # composite Gauss-Legendre; panel edges are reference quantiles spaced logarithmically in the tail
        # probability, so that heavy tails (inverse_gamma, student_t, cauchy, log_normal) are resolved:
        # equal-width panels over [ppf(1e-6), ppf(1-1e-6)] put the whole bulk into one panel (10% error
        # for inverse_gamma(1.5, 2.8), found by the thorough soak - an oracle error, see DESIGN 11)
        tq = np.logspace(np.log10(qlo), np.log10(0.5), 40)
        qs = np.unique(np.concatenate([tq, 1.0 - tq]))
        edges = np.unique(np.asarray([float(r.ppf(q)) for q in qs]))
        lo, hi = edges[0], edges[-1]
        xg, wg = np.polynomial.legendre.leggauss(24)
        xs = np.concatenate([(e1 - e0) / 2 * xg + (e1 + e0) / 2 for e0, e1 in zip(edges[:-1], edges[1:])])
        ws = np.concatenate([(e1 - e0) / 2 * wg for e0, e1 in zip(edges[:-1], edges[1:])])
        # float32 nodes must stay inside the open support (a node that rounds onto the boundary of a
        # density that diverges there integrably, e.g. beta(a, b<1) at 1, would evaluate to inf)
        s_lo, s_hi = r.support() if hasattr(r, "support") else (-np.inf, np.inf)
        x32 = xs.astype(np.float32)
        x32 = np.where(x32 >= np.float32(s_hi), np.nextafter(np.float32(s_hi), np.float32(-np.inf)), x32)
        x32 = np.where(x32 <= np.float32(s_lo), np.nextafter(np.float32(s_lo), np.float32(np.inf)), x32)
        lp = np.asarray(jax.vmap(lambda v: d.logpdf(v, *ja))(jnp.asarray(x32, dtype=jnp.float32)), dtype=np.float64)
        cover = r.cdf(hi) - r.cdf(lo)
        tol = 5e-4 if name not in ("uniform", "beta", "gamma", "weibull", "chi2") else 2e-3
        return float(np.sum(ws * np.exp(lp))) / cover, tol
    if kind == "d":
        sup = spec["sup"](a)
        dt = jnp.bool_ if spec.get("dtype") == "bool" else (jnp.int32 if spec.get("dtype") == "int32" else jnp.float32)
        lp = np.asarray(jax.vmap(lambda v: d.logpdf(v, *ja))(jnp.asarray(sup, dtype=dt)), dtype=np.float64)
        return float(np.sum(np.exp(lp))), spec.get("norm_tol", 2e-3)
    if kind == "cat":
        lp = np.asarray(jax.vmap(lambda v: d.logpdf(v, *ja))(jnp.arange(len(a[0]))), dtype=np.float64)
        return float(np.sum(np.exp(lp))), 1e-4
    if kind == "multinomial":
        n_tr, k = int(a[0]), len(a[1])
        import itertools
        pts = [c for c in itertools.product(range(n_tr + 1), repeat=k) if sum(c) == n_tr]
        lp = np.asarray(jax.vmap(lambda v: d.logpdf(v, *ja))(jnp.asarray(pts, dtype=jnp.float32)), dtype=np.float64)
        return float(np.sum(np.exp(lp))), 1e-3
    return None


def expected_shape_dtype(case, n):
    spec = SPECS[case["dist"]]
    a = case["args"]
    kind = spec["kind"]
    ev = ()
    if kind == "mvn":
        ev = (len(a[0]),)
    elif kind == "dirichlet":
        ev = (len(a[0]),)
    elif kind == "multinomial":
        ev = (len(a[1]),)
    dt = {"bool": np.bool_, "int32": np.int32}.get(spec.get("dtype"), np.float32)
    if kind == "cat":
        dt = np.int32
    return (n,) + ev, dt


def run_case(case):
    viol = []
    name = case["dist"]
    probes = {"d_" + name: 1, "mode_" + case["mode"]: 1, "stage2": 0, "logpdf_points": 0, "normalisation": 0, "sampler_tests": 0}
    sig = dict(dist=name, mode=case["mode"])
    evals = 0
    try:
        d = dist_obj(name)
        ja = jargs(case["args"])
        rng = np.random.default_rng(case["vseed"])
        # --- op-level: logpdf is the documented parameterisation
        for v in values_across_support(case, rng):
            got = float(d.logpdf(jnp.asarray(v), *ja))
            want = ref_logpdf(case, v)
            probes["logpdf_points"] += 1
            evals += 1
            if np.isfinite(want) and not world.close(got, want, 2e-3, 2e-3):
                viol.append(V("wrong_density", "logpdf_is_documented_parameterisation",
                              f"{name}{tuple(case['args'])}.logpdf({world.to_py(v)}) = {got}, reference {want}", **sig))
                break
        # --- op-level: the keyword spellings of the parameters (documented order, reversed order, first
        # parameter positional + rest by keyword) name the same density as the positional call
        if not viol and name in KWNAMES and len(KWNAMES[name]) == len(ja):
            names = KWNAMES[name]
            spell = [("documented", (), list(zip(names, ja))), ("reversed", (), list(zip(names, ja))[::-1]),
                     ("mixed", tuple(ja[:1]), list(zip(names, ja))[1:][::-1])]
            for v in values_across_support(case, np.random.default_rng(case["vseed"]))[2:5]:
                want = ref_logpdf(case, v)
                if not np.isfinite(want):
                    continue
                for label, pos, kws in spell:
                    got = float(d.logpdf(jnp.asarray(v), *pos, **dict(kws)))
                    probes["logpdf_kw_points"] = probes.get("logpdf_kw_points", 0) + 1
                    evals += 1
                    if not world.close(got, want, 2e-3, 2e-3):
                        viol.append(V("wrong_density", "keyword_call_names_the_same_density",
                                      f"{name}.logpdf({world.to_py(v)}, {[k for k, _ in kws]} {label}) = {got}, reference {want}", **sig))
                        break
                if viol:
                    break
        # --- op-level: normalisation
        if not viol:
            nz = normalisation(case)
            if nz is not None:
                probes["normalisation"] += 1
                evals += 1
                if abs(nz[0] - 1.0) > nz[1]:
                    viol.append(V("not_normalised", "density_normalises_to_one",
                                  f"{name}{tuple(case['args'])}: total mass {nz[0]}", **sig))
        # --- simulated: the sampler draws from that density, documented shape and dtype
        if not viol:
            n = case["n"]
            for stage, (key, mult) in enumerate(((case["key"], 1), (case["key"] + 1, 8))):
                x = np.asarray(draw(case, key, n * mult))
                evals += 1
                shp, dt = expected_shape_dtype(case, n * mult)
                if x.shape != shp or x.dtype != dt:
                    viol.append(V("wrong_shape", "documented_shape_and_dtype",
                                  f"{name} via {case['mode']}: got {x.dtype}{x.shape}, expected {np.dtype(dt)}{shp}", **sig))
                    break
                p, what = sample_test(case, x)
                probes["sampler_tests"] += 1
                if case["mode"] == "nested_lanes" and p >= 1e-6:
                    # the second lane against its own parameters
                    cb = case if _LAST_B.get("same") else dict(case, args=case["args_b"])
                    p, what = sample_test(cb, _LAST_B["x"])
                    what = "lane 1 of nested lanes: " + what
                if p >= 1e-6:
                    break
                if stage == 0:
                    probes["stage2"] += 1
                    continue
                viol.append(V("wrong_sampler", "sampler_matches_density",
                              f"{name}{tuple(case['args'])} via {case['mode']}: {what} rejected twice (p={p:.2e} on {n * mult} draws)", **sig))
    except Exception as e:
        viol.append(exc_violation(e, "distribution", **sig))
    return {"violations": viol, "steps": evals, "probes": probes, "faults": {}, "evals": evals,
            "key": f"{name}|{case['mode']}|{case['args']}", "nontrivial": True}


def shrink(case):
    if case["mode"] != "sample_shape":
        c = copy.deepcopy(case)
        c["mode"] = "sample_shape"
        yield c
