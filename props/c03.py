"""C03 - update returns the density ratio, keeps unconstrained choices, and is invertible.

update draws nothing, so the simulated object is the state transition: a trace produced by an
earlier (seeded) history is updated with seeded new arguments - including ones that flip Cond
predicates and change Scan/Vmap inputs - and a seeded constraint subset; both gf.update and the
Trace.update convenience; round trip update -> update-back with the discard.
"""
from sim import gfi, ref, progs, tracemachine as tm, bare

PROP = "C03"


def gen_case(rng, tier):
    if rng.random() < 0.12:
        # a bare Distribution / Vmap-of-Distribution used directly through the GFI (sim/bare.py)
        return bare.gen_case(rng, tier, "update")
    c = gfi.gen_model_case(rng, tier, shared_cond=None)
    nested = None
    if rng.random() < 0.15:
        # a Cond whose branches share addresses and contain a nested sub-call: constraints that name only part
        # of the nested sub-map while the new arguments switch the branch
        g = progs.Gen(rng, depth=1, max_blocks=2, kinds=["site", "call"], shared_cond=True)
        ma = g.model(1, "", 2)
        while not any(b["k"] == "call" and len(ref.model_paths(b["m"])) >= 2 for b in ma["blocks"]):
            ma = g.model(1, "", 2)
        blocks = ([{"k": "site", "a": "s", "d": rng.choice(progs.CONT_REAL_LINE), "kw": False}] if rng.random() < 0.5 else [])
        blocks.append({"k": "cond", "a": "c", "ma": ma, "mb": g._variant(ma), "thr": round(rng.uniform(-0.3, 0.3), 2), "shared": True})
        c = {"model": {"blocks": blocks}, "h": round(rng.uniform(-1.0, 1.0), 3)}
        sub = [b for b in ma["blocks"] if b["k"] == "call" and len(ref.model_paths(b["m"])) >= 2][0]
        nested = [("c", sub["a"]) + tuple(p) for p in ref.model_paths(sub["m"])]
    paths = ref.model_paths(c["model"])
    ops = [{"op": "init", "how": rng.choice(["simulate", "generate"]), "key": rng.randint(0, 2**30),
            "rseed": rng.randint(0, 2**30), "paths": [list(p) for p in gfi.pick_subset(rng, paths)],
            "cfg": rng.choice(["eager", "eager", "jit"])}]
    n = rng.randint(1, 4 if tier == "quick" else 8)
    for _ in range(n):
        if rng.random() < 0.12:
            ops.append(tm.gen_fault(rng, c["model"]))
            continue
        newh = rng.random() < 0.6
        sub_paths = gfi.pick_subset(rng, paths)
        if nested and rng.random() < 0.5:
            # a strict, non-empty part of the nested sub-map (plus, sometimes, other addresses)
            k = rng.randint(1, len(nested) - 1)
            sub_paths = rng.sample(nested, k) + ([p for p in sub_paths if tuple(p) not in nested] if rng.random() < 0.3 else [])
            newh = newh or rng.random() < 0.7
        op = {"op": "update", "h": round(rng.uniform(-1.2, 1.2), 3) if newh else None,
              "paths": [list(p) for p in sub_paths], "rseed": rng.randint(0, 2**30),
              "api": rng.choice(["gf", "gf", "trace", "trace_noargs"]), "cfg": rng.choice(["eager", "eager", "eager", "jit"]),
              "roundtrip": rng.random() < 0.6, "none_arg": rng.random() < 0.3}
        ops.append(op)
    c["ops"] = ops
    return c


def run_case(case):
    if "bare" in case:
        return bare.run_case(case)
    return tm.run_history(case)


def shrink(case):
    return bare.shrink(case) if "bare" in case else tm.shrink_history(case)
