"""C02 - generate honours constraints and returns the proper importance weight.

For every generated program and a seeded subset of its addresses as constraint map (none, all,
partial inside Vmap/Scan/Cond sub-calls, whole sub-calls missing): coherent trace, constrained
leaves bit-identical, the script is consulted for exactly the unconstrained leaves with the
reference's conditional-prior parameters, weight == sum of the constrained live sites' log-probs,
and (outcome tree) sum_scripts P(script) * exp(weight) == brute-force marginal of the constraints.
"""

import copy
import math
import numpy as np
import jax

from sim import world, progs, ref, gfi, otree, bare
from sim.gfi import V
from sim.scripted import run_scripted
from genjax import pjax as gpjax

PROP = "C02"
DISCRETE = ["flip", "bernoulli", "categorical"]


def gen_case(rng, tier):
    if rng.random() < 0.12:
        # a bare Distribution / Vmap-of-Distribution used directly through the GFI (sim/bare.py)
        return bare.gen_case(rng, tier, "generate")
    tree = rng.random() < 0.25
    if tree:
        c = gfi.gen_model_case(rng, tier, depth=rng.choice([0, 1, 1]), dists=DISCRETE, max_blocks=2)
    else:
        c = gfi.gen_model_case(rng, tier)
    has_alt = not tree and rng.random() < 0.3
    if has_alt:
        # a static argument switches additional addresses on: the same function object visits different
        # address sets in different calls of one history
        c["model"]["alt_blocks"] = [{"k": "site", "a": "y%d" % i, "d": rng.choice(progs.CONT + progs.DISC), "kw": False}
                                    for i in range(rng.randint(1, 2))]
    paths0 = ref.model_paths(c["model"])
    paths1 = ref.model_paths(progs.alt_model(c["model"]))
    ops = []
    n = 1 if tree else rng.randint(2, 4 if tier == "quick" else 7)
    for opi in range(n):
        # most histories start in the base configuration; the static switch is turned on later
        alt = has_alt and rng.random() < (0.2 if opi == 0 else 0.6)
        paths = paths1 if alt else paths0
        mode = rng.choice(["none", "all", "some", "some", "one", "subcall_missing", "none_arg"] + (["alt_only", "alt_only"] if alt else []))
        if mode == "subcall_missing":
            tops = sorted({p[0] for p in paths if len(p) > 1})
            if tops:
                drop = rng.choice(tops)
                sub = [p for p in paths if p[0] != drop]
            else:
                sub = gfi.pick_subset(rng, paths, "some")
        elif mode == "alt_only":
            sub = [p for p in paths1 if p not in paths0][: rng.randint(1, 2)]
        elif mode == "none_arg":
            sub = None  # generate(None, ...)
        else:
            sub = gfi.pick_subset(rng, paths, mode)
        op = {"op": "tree" if tree else "generate", "paths": None if sub is None else [list(p) for p in sub],
              "rseed": rng.randint(0, 2**30), "key": rng.randint(0, 2**30)}
        if not tree:
            op["cfg"] = rng.choice(["eager", "scripted", "scripted", "jit", "vmap"])
        if alt:
            op["alt"] = True
        ops.append(op)
    c["ops"] = ops
    return c


def constraint_map(model, h, paths, rseed):
    rr = ref.run(model, h, None, rng=np.random.default_rng(rseed))
    if paths is None:
        return None, rr
    return ref.subset(rr.choices, [tuple(p) for p in paths]), rr


def run_case(case):
    if "bare" in case:
        return bare.run_case(case)
    model0, h = case["model"], case["h"]
    gf0 = progs.build(model0)
    viol = []
    probes = {"generate": 0, "scripted": 0, "none": 0, "all": 0, "partial": 0, "partial_in_vec": 0,
              "subcall_missing": 0, "none_arg": 0, "tree": 0, "tree_complete": 0, "tree_leaves": 0}
    steps = evals = 0
    hist = []
    for op in case["ops"]:
        steps += 1
        if op.get("alt"):
            model, gf = progs.alt_model(model0), progs.WithStatic(gf0)
            probes["static_alt_call"] = probes.get("static_alt_call", 0) + 1
        else:
            model, gf = {"blocks": model0["blocks"]}, gf0
        all_paths = [tuple(p) for p in ref.model_paths(model)]
        paths = None if op["paths"] is None else [tuple(p) for p in op["paths"]]
        cons, _ = constraint_map(model, h, paths, op["rseed"])
        x = None if cons is None else gfi.to_jnp(cons)
        cp = set(paths or [])
        hist.append(op["op"] + ":" + (op.get("cfg") or "") + ":" + _mode(paths, all_paths))
        probes[_mode(paths, all_paths)] = probes.get(_mode(paths, all_paths), 0) + 1
        if paths and any(len(p) > 1 for p in paths) and set(paths) != set(all_paths):
            probes["partial_in_vec"] += 1
        tops_all = {p[0] for p in all_paths}
        if paths is not None and tops_all - {p[0] for p in paths} and any(len(p) > 1 and p[0] not in {q[0] for q in paths} for p in all_paths):
            probes["subcall_missing"] += 1
        try:
            if op["op"] == "tree":
                tv, info = run_tree(gf, model, h, x, cons, cp)
                viol += tv
                evals += info["leaves"]
                probes["tree"] += 1
                probes["tree_complete"] += int(info["complete"])
                probes["tree_leaves"] += info["leaves"]
            else:
                script = None
                if op["cfg"] == "scripted":
                    script = gfi.RefScript(op["key"])
                    (tr, w), log = run_scripted(gf.generate, script, x, h)
                    probes["scripted"] += 1
                else:
                    tr, w = gfi.execute(op["cfg"], gf.generate, op["key"], x, h)
                probes["generate"] += 1
                evals += 1
                viol += check_generate(tr, w, model, h, cons, cp, script, gf, op["cfg"])
        except Exception as e:
            viol.append(gfi.exc_violation(e, "generate", cfg=op.get("cfg"), mode=_mode(paths, all_paths)))
        if viol:
            break
    return {"violations": viol, "steps": steps, "probes": probes, "evals": evals, "faults": {},
            "key": progs.shape_key(model0) + "|" + ",".join(hist),
            "nontrivial": bool(progs.combinators(model0)),
            "extra": {"trees_complete": probes["tree_complete"]}}


def _mode(paths, all_paths):
    if paths is None:
        return "none_arg"
    if not paths:
        return "none"
    if set(paths) == set(all_paths):
        return "all"
    return "partial"


def check_generate(tr, w, model, h, cons, cp, script, gf, cfg):
    viol = []
    vs, r = gfi.coherence(tr, model, h, "generate/" + cfg)
    viol += gfi.convert(vs, op="generate", cfg=cfg)
    if r is None or vs:
        return viol
    ch = gfi.np_choices(tr)
    # constrained leaves hold the constraint unchanged
    for p in cp:
        want = ref.get_path(cons, p)
        got = ref.get_path(ch, p)
        if want is None:
            continue
        if got is None or not np.array_equal(np.asarray(want).astype(np.float64), np.asarray(got).astype(np.float64)):
            viol.append(V("constraint_lost", "constrained_values_unchanged",
                          f"address {'/'.join(p)}: constraint {world.to_py(want)} but trace holds {world.to_py(got)}",
                          op="generate", cfg=cfg))
            return viol
    want_w = sum(s["logp"] for s in r.sites if s["live"] and tuple(s["path"]) in cp)
    if not world.close(float(w), want_w, **gfi.TOL):
        viol.append(V("wrong_weight", "weight_is_sum_of_constrained_logps",
                      f"weight={float(w)} but sum of constrained sites' log-probs={want_w} (constrained={sorted(cp)})",
                      op="generate", cfg=cfg))
    if cons is not None and not cp and float(w) != 0.0:
        viol.append(V("wrong_weight", "weight_zero_when_unconstrained", f"weight={float(w)}", op="generate", cfg=cfg))
    if cp and cp >= {tuple(s["path"]) for s in r.sites if s["live"]}:
        lp, _ = gf.assess(tr.get_choices(), h)
        if not world.close(float(w), float(lp), rtol=1e-4, atol=1e-4):
            viol.append(V("wrong_weight", "weight_is_assess_when_all_constrained",
                          f"weight={float(w)} assess={float(lp)}", op="generate", cfg=cfg))
    if script is not None and not viol:
        un_sites = [s for s in r.sites if tuple(s["path"]) not in cp]
        un_ref, un_lanes = gfi.match_sites(un_sites, script.lanes, script=script)
        if un_ref:
            viol.append(V("routing", "unconstrained_drawn_from_conditional_prior",
                          "an unconstrained choice was not drawn at a site consulted with the reference's "
                          "conditional-prior parameters: " + gfi.site_str(un_ref[0]), op="generate", cfg=cfg))
        else:
            # lanes left over must be hidden Cond-branch draws only; constrained sites must not be sampled
            hidden_un = _hidden_unconstrained(model, r, cp)
            if len(un_lanes) > hidden_un:
                viol.append(V("routing", "constrained_sites_not_sampled",
                              f"{len(un_lanes)} consulted lanes are not in the trace; at most {hidden_un} hidden "
                              f"Cond-branch draws were expected", op="generate", cfg=cfg))
    return viol


def _hidden_unconstrained(model, r, cp):
    # upper bound: all hidden lanes (constrained hidden lanes are not consulted, so <=)
    return r.hidden_lanes


def run_tree(gf, model, h, x, cons, cp, max_leaves=2048):
    viol = []
    total = 0.0
    acc = 0.0
    leaves = 0
    complete = True
    try:
        for (tr, w), P, path in otree.explore(lambda s: run_scripted(gf.generate, s, x, h)[0], max_leaves=max_leaves):
            leaves += 1
            total += P
            acc += P * math.exp(float(w))
            vs = check_generate(tr, w, model, h, cons, cp, None, gf, "tree")
            if vs:
                viol += vs
                break
    except otree.TreeBudget:
        complete = False
    if complete and not viol:
        if not world.close(total, 1.0, 1e-6, 1e-6):
            viol.append(V("wrong_distribution", "tree_total_probability", f"sum P(script) = {total}", op="generate"))
        want = ref.marginal(model, h, cons or {}, cp)
        if not world.close(acc, want, 3e-4, 1e-7):
            viol.append(V("wrong_weight", "exp_weight_averages_to_marginal",
                          f"sum_scripts P*exp(weight) = {acc} but the marginal probability of the constraints is {want}",
                          op="generate"))
    return viol, {"leaves": leaves, "complete": complete}


def shrink(case):
    if "bare" in case:
        yield from bare.shrink(case)
        return
    ops = case["ops"]
    for i in range(len(ops)):
        if len(ops) > 1:
            c = copy.deepcopy(case)
            del c["ops"][i]
            yield c
    for m in gfi.shrink_model(case["model"]):
        c = copy.deepcopy(case)
        if case["model"].get("alt_blocks"):
            m = dict(m, alt_blocks=case["model"]["alt_blocks"])
        c["model"] = m
        valid = {tuple(p) for p in ref.model_paths(progs.alt_model(m))}
        for o in c["ops"]:
            if o["paths"] is not None:
                o["paths"] = [p for p in o["paths"] if tuple(p) in valid]
        yield c
    for i, o in enumerate(ops):
        if o.get("cfg") not in (None, "eager", "scripted"):
            c = copy.deepcopy(case)
            c["ops"][i]["cfg"] = "eager"
            yield c
        if o["paths"]:
            for j in range(len(o["paths"])):
                c = copy.deepcopy(case)
                del c["ops"][i]["paths"][j]
                yield c
