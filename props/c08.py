"""C08 - modular_vmap and Vmap are lane-wise maps, for densities and for sampling.

(i) modular_vmap: generated per-lane functions f(a, b, c) mixing deterministic code, log-density
sites and sampling sites (TRACER `echo` / `keyprobe` distributions and real normals with tiny
scales), wrapped with generated axis specifications (0, 1, -1, None, tuples, dict pytrees, a bare
int), axis size given or inferred, scan / cond / nested modular_vmap inside, sample_shape sites,
per-lane parameters of unequal rank. Oracle: every output has the shape, dtype and layout that
jax.vmap gives the deterministic skeleton of f (sites replaced by stand-ins of the per-lane shape);
deterministic and log-density outputs equal that skeleton's; every lane's draw lies in *its own*
lane's parameter cell; lane fingerprints are pairwise distinct (never one draw broadcast).
(ii) Vmap / repeat combinators: a generated model wrapped with .vmap (tuple and int in_axes) or
.repeat; lane i of the vectorised trace is a coherent reference trace on lane i's argument, and
score / assess / generate weight / update weight / regenerate weight are the per-lane sums.
"""
import copy
import numpy as np
from sim import world, pf, progs, ref, gfi, selections
from sim.gfi import V
from sim.scripted import run_scripted
import jax
import jax.numpy as jnp
import jax.tree_util as jtu
import genjax
from genjax import pjax as gpjax

PROP = "C08"
STMTS = ["det", "echo_scalar", "echo_vec", "echo_ss", "kp", "normal_rank", "logpdf", "logpdf_draw", "scan", "cond", "inner_mv", "kw",
         "echo_mat", "normal_mat", "logpdf_mat"]


def gen_case(rng, tier):
    part = rng.choice(["mv", "mv", "mv", "comb"])
    if part == "comb":
        c = gfi.gen_model_case(rng, tier, depth=rng.choice([0, 1, 1]), max_blocks=2)
        c.update({"part": "comb", "n": rng.randint(1, 3), "wrap": rng.choice(["tuple", "int0", "repeat"]),
                  "key": rng.randint(0, 2**30), "rseed": rng.randint(0, 2**30),
                  "sel": selections.gen_sel(rng, ref.model_paths(c["model"]), depth=rng.choice([0, 1]))})
        return c
    stmts = [rng.choice(STMTS) for _ in range(rng.randint(1, 4))]
    spec = rng.choice(["pos0", "pos1", "posm1", "dict", "int0", "none", "nested_tuple"])
    return {"part": "mv", "stmts": stmts, "spec": spec, "dax": rng.choice([0, 1, 2, -1, -2]), "n": rng.randint(1, 4), "m": rng.randint(1, 3), "k": rng.randint(1, 3),
            "key": rng.randint(0, 2**30), "outer": rng.choice([None, None, "repeat2", "lanes2"]), "jit": rng.random() < 0.25}


# ------------------------------------------------------------------ part (i): per-lane functions


def lane_fn(stmts, det, k):
    """f(a, b, c) -> dict of outputs. det=True: the deterministic skeleton (sites -> stand-ins)."""
    echo, keyprobe, normal = pf.echo, pf.keyprobe, genjax.normal

    def s_echo(loc, ss=None):
        if det:
            shape = (tuple(ss) if ss else ()) + jnp.shape(loc)
            return jnp.broadcast_to(loc, shape) + 0.5
        return echo.sample(loc, sample_shape=tuple(ss)) if ss else echo.sample(loc)

    def s_kp(loc):
        if det:
            return jnp.zeros(jnp.shape(loc) + (2,), dtype=jnp.uint32)
        return keyprobe.sample(loc)

    def s_normal(loc, scale):
        if det:
            return loc + 0.0 * scale
        return normal.sample(loc, scale)

    def f(a, b, c, d=None):
        out = {}
        for i, st in enumerate(stmts):
            t = f"{i}_{st}"
            if st == "det":
                out[t] = jnp.sin(a) * c + jnp.sum(b)
            elif st == "echo_scalar":
                loc = 10.0 * a
                out[t + "_loc"] = loc
                out[t + "_draw"] = s_echo(loc)
            elif st == "echo_vec":
                loc = 10.0 * b
                out[t + "_loc"] = loc
                out[t + "_draw"] = s_echo(loc)
            elif st == "echo_ss":
                loc = 10.0 * a
                out[t + "_loc"] = loc
                out[t + "_draw"] = s_echo(loc, (2,))
            elif st == "kp":
                out[t + "_kp"] = s_kp(a)
            elif st == "echo_mat" and d is not None:
                # matrix-valued per-lane parameter (mapped along a generated axis of a 3-D array)
                loc = 10.0 * d
                out[t + "_loc"] = loc
                out[t + "_draw"] = s_echo(loc)
            elif st == "normal_mat" and d is not None:
                loc = 10.0 * d
                out[t + "_loc"] = loc
                out[t + "_ndraw"] = s_normal(loc, 1e-3 + 0.0 * c[0])
            elif st == "logpdf_mat" and d is not None:
                out[t] = normal.logpdf(d + 0.1, d, 1.0 + jnp.abs(c[0]))
            elif st == "normal_rank":
                # lane scalar loc, unmapped vector scale: per-lane draw has the shape of c
                loc = 10.0 * a
                out[t + "_loc"] = loc
                out[t + "_ndraw"] = s_normal(loc, 1e-3 * (1.0 + jnp.abs(c)))
            elif st == "kw":
                loc = 10.0 * a
                out[t + "_loc"] = loc
                out[t + "_ndraw"] = (loc + 0.0 * c[0]) if det else normal.sample(scale=1e-3 * (1.0 + jnp.abs(c[0])), loc=loc)
            elif st == "logpdf":
                out[t] = normal.logpdf(b, a, 1.0 + jnp.abs(c[0]))
            elif st == "logpdf_draw":
                loc = 10.0 * a
                v = s_normal(loc, 1e-3 + 0.0 * c[0])
                out[t + "_loc"] = loc
                out[t + "_ndraw"] = v
                out[t + "_lp"] = (jnp.zeros(()) if det else normal.logpdf(v, loc, 1e-3 + 0.0 * c[0]))
            elif st == "scan":
                def body(carry, x):
                    loc = 10.0 * (carry + x)
                    return carry + 1.0, (loc, s_echo(loc))

                _, (locs, draws) = jax.lax.scan(body, a, jnp.arange(2.0))
                out[t + "_loc"] = locs
                out[t + "_draw"] = draws
            elif st == "cond":
                loc = jnp.where(a > 0.25, 10.0 * a, 10.0 * a + 100.0)
                out[t + "_loc"] = loc
                out[t + "_draw"] = jax.lax.cond(a > 0.25, lambda z: s_echo(10.0 * z), lambda z: s_echo(10.0 * z + 100.0), a)
            elif st == "inner_mv":
                loc = 10.0 * (a + c)
                out[t + "_loc"] = loc
                if det:
                    out[t + "_draw"] = jax.vmap(lambda cc: s_echo(10.0 * (a + cc)))(c)
                else:
                    out[t + "_draw"] = gpjax.modular_vmap(lambda cc: s_echo(10.0 * (a + cc)), in_axes=0)(c)
        return out

    return f


def make_args(case):
    n, m, k = case["n"], case["m"], case["k"]
    a = 0.1 * jnp.arange(n, dtype=jnp.float32) + 0.05                      # distinct lane scalars (cells of width 1 after *10)
    b = (a[:, None] + 0.01 * jnp.arange(m, dtype=jnp.float32)[None, :])   # (n, m), distinct
    c = 0.3 * jnp.arange(k, dtype=jnp.float32) + 0.2
    spec = case["spec"]
    if any(st.endswith("_mat") for st in case["stmts"]) and spec in ("pos0", "pos1", "posm1", "dict"):
        # lane i holds the (m, k) matrix a_i + 0.01*r + 0.001*c; the lane axis is placed at position `dax`
        dl = a[:, None, None] + 0.01 * jnp.arange(m, dtype=jnp.float32)[None, :, None] + 0.001 * jnp.arange(k, dtype=jnp.float32)[None, None, :]
        dax = case.get("dax", 0)
        D = jnp.moveaxis(dl, 0, dax)
        bb, bax = (b, 0) if spec == "pos0" else (b.T, 1 if spec != "posm1" else -1)
        if spec == "dict":
            return ({"a": a, "b": b.T, "d": D}, c), ({"a": 0, "b": 1, "d": dax}, None), None, \
                lambda f: (lambda dd, cc: f(dd["a"], dd["b"], cc, dd["d"]))
        return (a, bb, c, D), (0, bax, None, dax), None, lambda f: f
    if spec == "pos0":
        return (a, b, c), (0, 0, None), None, lambda f: f
    if spec == "pos1":
        return (a, b.T, c), (0, 1, None), None, lambda f: f
    if spec == "posm1":
        return (a, b.T, c), (0, -1, None), None, lambda f: f
    if spec == "dict":
        return ({"a": a, "b": b.T}, c), ({"a": 0, "b": 1}, None), None, lambda f: (lambda d, cc: f(d["a"], d["b"], cc))
    if spec == "nested_tuple":
        return ((a, (b,)), c), ((0, (0,)), None), None, lambda f: (lambda t, cc: f(t[0], t[1][0], cc))
    if spec == "int0":
        cl = jnp.broadcast_to(c, (n, k)) + 0.0
        return (a, b, cl), 0, None, lambda f: f
    if spec == "none":
        return (a[0], b[0], c), None, n, lambda f: f
    raise ValueError(spec)


def run_mv(case, viol, probes):
    sig = dict(part="mv", spec=case["spec"], outer=case["outer"], stmts="+".join(sorted(set(case["stmts"]))), dax=case.get("dax"))
    args, in_axes, axis_size, adapt = make_args(case)
    k = case["k"]
    fp = adapt(lane_fn(case["stmts"], False, k))
    fd = adapt(lane_fn(case["stmts"], True, k))
    mv = gpjax.modular_vmap(fp, in_axes=in_axes, axis_size=axis_size)
    rv = jax.vmap(fd, in_axes=in_axes, axis_size=axis_size)
    if case["outer"] == "repeat2":
        mv = gpjax.modular_vmap(lambda *a: gpjax.modular_vmap(fp, in_axes=in_axes, axis_size=axis_size)(*a), in_axes=None, axis_size=2)
        rv = jax.vmap(lambda *a: jax.vmap(fd, in_axes=in_axes, axis_size=axis_size)(*a), in_axes=None, axis_size=2)
    elif case["outer"] == "lanes2":
        args = jtu.tree_map(lambda x: jnp.stack([x, x + 0.5]), args)
        mv = gpjax.modular_vmap(lambda *a: gpjax.modular_vmap(fp, in_axes=in_axes, axis_size=axis_size)(*a), in_axes=0)
        rv = jax.vmap(lambda *a: jax.vmap(fd, in_axes=in_axes, axis_size=axis_size)(*a), in_axes=0)
    want = rv(*args)
    seeded = gpjax.seed(mv)
    if case["jit"]:
        seeded = jax.jit(seeded)
    got = seeded(jax.random.key(case["key"]), *args)
    n_checked = 0
    for name in sorted(want):
        w, g = np.asarray(want[name]), np.asarray(got[name])
        n_checked += 1
        if w.shape != g.shape or w.dtype != g.dtype:
            viol.append(V("wrong_layout", "same_shape_and_layout_as_jax_vmap",
                          f"output {name}: modular_vmap gives {g.dtype}{g.shape}, jax.vmap of the deterministic skeleton gives "
                          f"{w.dtype}{w.shape} (in_axes={in_axes}, axis_size={axis_size}, outer={case['outer']})", **sig))
            return n_checked
        if name.endswith("_draw") or name.endswith("_ndraw") or name.endswith("_kp") or name.endswith("_lp"):
            continue
        if not world.close(g, w, 1e-5, 1e-6):
            viol.append(V("wrong_value", "deterministic_and_density_outputs_lanewise",
                          f"output {name}: {g.tolist()} vs lane-wise {w.tolist()}", **sig))
            return n_checked
    # sampling sites: lane pairing and independence
    fps = []
    for name in sorted(want):
        g = np.asarray(got[name])
        if name.endswith("_draw"):
            loc = np.asarray(got[name[:-5] + "_loc"], dtype=np.float64)
            g = g.astype(np.float64)
            if name.endswith("echo_ss_draw"):
                loc = np.expand_dims(loc, -1) if False else loc
                # per-lane sample_shape (2,) sits after the lane axes: broadcast loc over the last axis
                d = g - np.expand_dims(loc, -1)
            else:
                d = g - loc
            probes["echo_cells"] = probes.get("echo_cells", 0) + d.size
            if np.any(d < -1e-3) or np.any(d >= 1.0 + 1e-3):
                viol.append(V("wrong_pairing", "each_lane_draws_from_its_own_parameters",
                              f"site {name}: draw - loc = {np.round(d, 3).tolist()} is not in [0,1): a lane's draw was made from "
                              f"another lane's parameter (in_axes={in_axes}, outer={case['outer']})", **sig))
                return n_checked
            fps.append(np.round(d % 1.0, 7).reshape(-1))
        elif name.endswith("_ndraw"):
            loc = np.asarray(got[name[:-6] + "_loc"], dtype=np.float64)
            g = g.astype(np.float64)
            d = g - (np.expand_dims(loc, -1) if g.ndim == loc.ndim + 1 else loc)
            if np.any(np.abs(d) > 0.05):
                viol.append(V("wrong_pairing", "each_lane_draws_from_its_own_parameters",
                              f"site {name}: |draw - loc| up to {np.max(np.abs(d)):.3g} with scale ~1e-3: lanes and parameters are mispaired", **sig))
                return n_checked
            if g.size > 1 and len(np.unique(g)) != g.size:
                viol.append(V("broadcast_draw", "one_independent_draw_per_lane", f"site {name}: repeated values {g.tolist()}", **sig))
                return n_checked
            if name[:-6] + "_lp" in got:
                lp = np.asarray(got[name[:-6] + "_lp"], dtype=np.float64)
                want_lp = -0.5 * (d / 1e-3) ** 2 - np.log(1e-3) - 0.5 * np.log(2 * np.pi)
                if not world.close(lp, want_lp, 2e-2, 2e-2):
                    viol.append(V("wrong_value", "deterministic_and_density_outputs_lanewise",
                                  f"logpdf of a lane's own draw: {lp.tolist()} vs {want_lp.tolist()}", **sig))
                    return n_checked
        elif name.endswith("_kp"):
            rows = g.reshape(-1, 2)
            packed = rows[:, 0].astype(np.uint64) << np.uint64(32) | rows[:, 1].astype(np.uint64)
            probes["kp_lanes"] = probes.get("kp_lanes", 0) + len(packed)
            if len(np.unique(packed)) != len(packed):
                viol.append(V("broadcast_draw", "one_independent_draw_per_lane",
                              f"site {name}: {len(packed) - len(np.unique(packed))} lanes received the same key", **sig))
                return n_checked
    return n_checked


# ------------------------------------------------------------------ part (ii): Vmap / repeat combinators


def run_comb(case, viol, probes):
    model, n = case["model"], case["n"]
    sig = dict(part="comb", wrap=case["wrap"], combinators="+".join(progs.combinators(model)))
    gf = progs.build(model)
    hs = [round(case["h"] + 0.17 * i, 3) for i in range(n)]
    if case["wrap"] == "tuple":
        vg, args = gf.vmap(in_axes=(0,)), (jnp.asarray(hs, dtype=jnp.float32),)
    elif case["wrap"] == "int0":
        vg, args = gf.vmap(in_axes=0), (jnp.asarray(hs, dtype=jnp.float32),)
    else:
        vg, args = gf.repeat(n), (jnp.float32(case["h"]),)
        hs = [case["h"]] * n
    lane = lambda t, i: jtu.tree_map(lambda x: x[i], t)
    paths = [tuple(p) for p in ref.model_paths(model)]
    script = gfi.RefScript(case["rseed"])

    def lanes_ok(tr, what):
        tot = 0.0
        for i in range(n):
            vs, r = gfi.coherence(lane(tr, i), model, hs[i], f"{what}: lane {i}")
            if vs:
                viol.extend(gfi.convert(vs, **sig))
                return None
            tot += r.logp
        if not world.close(-float(tr.get_score()), tot, **gfi.TOL):
            viol.append(V("not_lanewise", "score_is_sum_over_lanes", f"{what}: score {float(tr.get_score())} vs -sum of lane log densities {-tot}", **sig))
            return None
        return tot

    # simulate
    tr, _ = run_scripted(vg.simulate, script, *args)
    probes["op_simulate"] = 1
    tot = lanes_ok(tr, "simulate")
    if tot is None:
        return 1
    rv = np.asarray(tr.get_retval())
    if rv.shape[:1] != (n,):
        viol.append(V("wrong_layout", "retvals_stacked_along_lane_axis", f"retval shape {rv.shape}", **sig))
        return 1
    # assess
    lp, r_ = vg.assess(tr.get_choices(), *args)
    probes["op_assess"] = 1
    if not world.close(float(lp), tot, **gfi.TOL):
        viol.append(V("not_lanewise", "assess_is_sum_over_lanes", f"assess {float(lp)} vs {tot}", **sig))
        return 2
    if not np.isfinite(tot):
        return 2
    # generate with a subset constrained (same addresses for all lanes)
    cp = set(gfi.pick_subset(__import__("random").Random(case["rseed"]), paths, "some"))
    cons = ref.subset(gfi.np_choices(tr), sorted(cp))
    (tr2, w), _ = run_scripted(vg.generate, script, gfi.to_jnp(cons), *args)
    probes["op_generate"] = 1
    if lanes_ok(tr2, "generate") is None:
        return 3
    want = 0.0
    for i in range(n):
        r = ref.run(model, hs[i], gfi.np_choices(lane(tr2, i)))
        want += sum(s["logp"] for s in r.sites if s["live"] and tuple(s["path"]) in cp)
    if not world.close(float(w), want, **gfi.TOL):
        viol.append(V("not_lanewise", "generate_weight_is_sum_over_lanes", f"weight {float(w)} vs {want}", **sig))
        return 3
    # update with new per-lane arguments
    if case["wrap"] != "repeat":
        hs2 = [round(h + 0.21, 3) for h in hs]
        args2 = (jnp.asarray(hs2, dtype=jnp.float32),)
    else:
        hs2 = [round(case["h"] + 0.21, 3)] * n
        args2 = (jnp.float32(hs2[0]),)
    old = [ref.run(model, hs[i], gfi.np_choices(lane(tr2, i))).logp for i in range(n)]
    tr3, w3, disc = vg.update(tr2, None, *args2)
    probes["op_update"] = 1
    new = [ref.run(model, hs2[i], gfi.np_choices(lane(tr3, i))).logp for i in range(n)]
    if all(np.isfinite(new)):
        hs_save, hs = hs, hs2
        ok = lanes_ok(tr3, "update")
        if ok is None:
            return 4
        if not world.close(float(w3), sum(new) - sum(old), **gfi.TOL):
            viol.append(V("not_lanewise", "update_weight_is_sum_over_lanes", f"weight {float(w3)} vs {sum(new) - sum(old)}", **sig))
            return 4
        # regenerate
        so = selections.build(case["sel"])
        S = {p for p in paths if selections.selected(p, case["sel"])}
        (tr4, w4, d4), _ = run_scripted(vg.regenerate, script, tr3, so, *args2)
        probes["op_regenerate"] = 1
        if lanes_ok(tr4, "regenerate") is None:
            return 5
        want = 0.0
        switch = False
        for i in range(n):
            r0 = ref.run(model, hs2[i], gfi.np_choices(lane(tr3, i)))
            r1 = ref.run(model, hs2[i], gfi.np_choices(lane(tr4, i)))
            switch |= r0.checks != r1.checks
            s0 = sum(x["logp"] for x in r0.sites if x["live"] and tuple(x["path"]) in S)
            s1 = sum(x["logp"] for x in r1.sites if x["live"] and tuple(x["path"]) in S)
            want += (r1.logp - r0.logp) - (s1 - s0)
        if not switch and np.isfinite(want) and not world.close(float(w4), want, **gfi.TOL):
            viol.append(V("not_lanewise", "regenerate_weight_is_sum_over_lanes", f"weight {float(w4)} vs {want}", **sig))
            return 5
    return 5


def run_case(case):
    viol = []
    probes = {"part_" + case["part"]: 1}
    evals = 0
    try:
        if case["part"] == "mv":
            probes["spec_" + case["spec"]] = 1
            if any(st.endswith("_mat") for st in case["stmts"]) and case["spec"] in ("pos0", "pos1", "posm1", "dict"):
                probes["matrix_lane_axis_%s" % case.get("dax")] = 1
            for s in set(case["stmts"]):
                probes["st_" + s] = 1
            if case["outer"]:
                probes["nested_outer"] = 1
            evals = run_mv(case, viol, probes)
        else:
            probes["wrap_" + case["wrap"]] = 1
            evals = run_comb(case, viol, probes)
    except Exception as e:
        viol.append(gfi.exc_violation(e, "vmap", part=case["part"], spec=case.get("spec"), wrap=case.get("wrap")))
    key = (f"mv|{case['spec']}|{case['outer']}|{'+'.join(case['stmts'])}|{case['n']},{case['m']},{case['k']}" if case["part"] == "mv"
           else f"comb|{case['wrap']}|{case['n']}|{progs.shape_key(case['model'])}")
    return {"violations": viol, "steps": evals, "probes": probes, "faults": {}, "evals": max(evals, 1), "key": key,
            "nontrivial": case["n"] >= 2}


def shrink(case):
    if case["part"] == "mv":
        for i in range(len(case["stmts"])):
            if len(case["stmts"]) > 1:
                c = copy.deepcopy(case)
                del c["stmts"][i]
                yield c
        if case.get("dax"):
            c = copy.deepcopy(case)
            c["dax"] = 0
            yield c
        for k in ("n", "m", "k"):
            if case[k] > 1:
                c = copy.deepcopy(case)
                c[k] -= 1
                yield c
        if case["outer"]:
            c = copy.deepcopy(case)
            c["outer"] = None
            yield c
        if case["jit"]:
            c = copy.deepcopy(case)
            c["jit"] = False
            yield c
        if case["spec"] != "pos0":
            c = copy.deepcopy(case)
            c["spec"] = "pos0"
            yield c
    else:
        for m in gfi.shrink_model(case["model"]):
            c = copy.deepcopy(case)
            c["model"] = m
            c["sel"] = {"t": "all"}
            yield c
        if case["n"] > 1:
            c = copy.deepcopy(case)
            c["n"] -= 1
            yield c
