"""C19 - state/save is transparent and collects exactly what was saved.

save/tag_state calls are messages and the returned dict is the delivery: exactly-once,
last-writer-wins, in-order stacking. Generated programs place saves in nested functions,
namespaces (also around scans), scans (nested), vmap / modular_vmap, under eager, jit and seed
(saved values include random draws, which must be the very draws that appear in the result).
Reference: the program also *returns* every saved value (stacked by scan / batched by vmap through
ordinary JAX outputs); the expected dictionary is the fold of the static save events in program
order (later write replaces earlier) over those returned values.
"""
import copy
import numpy as np
import jax
import jax.numpy as jnp
import jax.tree_util as jtu

from sim import world
from sim.gfi import V, exc_violation
from genjax import pjax as gpjax, normal
from genjax.state import state, save, tag_state, namespace

PROP = "C19"
NAMES = ["x", "y", "z"]
SPACES = ["n1", "n2"]


def gen_body(rng, depth, in_ns=False, allow_draw=False):
    out = []
    for _ in range(rng.randint(1, 3)):
        kinds = ["save", "save", "tag", "upd"]
        if allow_draw:
            kinds.append("draw")
        if depth > 0:
            kinds += ["ns", "scan", "vmap", "mvmap", "fn"]
        k = rng.choice(kinds)
        if k == "save":
            st = {"k": "save", "names": rng.sample(NAMES, rng.randint(1, 2)), "c": rng.randint(1, 4)}
        elif k == "tag":
            st = {"k": "tag", "name": rng.choice(NAMES), "multi": rng.random() < 0.3}
        elif k == "leaf":
            st = {"k": "leaf", "multi": rng.random() < 0.3}
        elif k == "upd":
            st = {"k": "upd"}
        elif k == "draw":
            st = {"k": "draw"}
        elif k == "ns":
            if rng.random() < 0.25:
                # leaf mode: the namespace itself is the leaf, so nothing else is stored under it
                # (mixing leaf-mode and named saves in one namespace is contradictory use, not generated)
                st = {"k": "ns", "name": rng.choice(SPACES) + "L", "body": [{"k": "upd"}, {"k": "leaf", "multi": rng.random() < 0.3}]}
            else:
                st = {"k": "ns", "name": rng.choice(SPACES), "body": gen_body(rng, depth - 1, True, allow_draw)}
        elif k == "fn":
            st = {"k": "fn", "body": gen_body(rng, depth - 1, in_ns, allow_draw)}
        elif k == "scan":
            st = {"k": "scan", "n": rng.randint(1, 3), "body": gen_body(rng, depth - 1, in_ns, allow_draw)}
            # the other parameters of lax.scan: order of iteration and unrolling
            if rng.random() < 0.3:
                st["rev"] = True
            if rng.random() < 0.2:
                st["unroll"] = 2
            if rng.random() < 0.4:
                st["cl"] = True  # the body closes over a per-call value of the enclosing scope
        else:
            st = {"k": k, "n": rng.randint(1, 3), "body": gen_body(rng, depth - 1, in_ns, allow_draw and k == "mvmap")}
        out.append(st)
    return out


def gen_case(rng, tier):
    cfg = rng.choice(["eager", "eager", "jit", "seed", "state_of_seed", "jit_seed"])
    body = gen_body(rng, rng.choice([1, 2, 2] if tier == "quick" else [2, 2, 3]), False, cfg in ("seed", "state_of_seed", "jit_seed"))
    _number(body, [0])
    # the same wrapped function object is called a second time with another argument (history)
    return {"body": body, "cfg": cfg, "x": round(rng.uniform(-1, 1), 3), "key": rng.randint(0, 2**30),
            "x2": round(rng.uniform(-1, 1), 3) if rng.random() < 0.5 else None}


def _number(body, ctr):
    for st in body:
        st["id"] = ctr[0]
        ctr[0] += 1
        if "body" in st:
            _number(st["body"], ctr)


def shape_key(body):
    def k(st):
        if "body" in st:
            return "%s%s%s(%s)" % (st["k"], st.get("name", st.get("n", "")), "r" if st.get("rev") else "", shape_key(st["body"]))
        if st["k"] == "save":
            return "save:" + "+".join(st["names"])
        if st["k"] == "tag":
            return "tag:" + st["name"] + ("*" if st["multi"] else "")
        return st["k"]

    return ",".join(k(s) for s in body)


# ------------------------------------------------------------------ build


def build(body):
    """f(acc) -> (acc, outs) where outs maps str(statement id) -> the value(s) that statement saved."""

    def run(stmts, acc):
        outs = {}
        for st in stmts:
            k = st["k"]
            sid = str(st["id"])
            if k == "upd":
                acc = acc * 0.9 + 0.1
            elif k == "draw":
                acc = acc + normal.sample(0.0, 0.1)
            elif k == "save":
                vals = {n: acc * st["c"] + i for i, n in enumerate(st["names"])}
                got = save(**vals)
                outs[sid] = {n: got[n] for n in st["names"]}
                acc = acc + 0.0 * sum(got.values())
            elif k == "tag":
                if st["multi"]:
                    a, b = tag_state(acc + 1.0, acc * 2.0, name=st["name"])
                    outs[sid] = (a, b)
                else:
                    outs[sid] = tag_state(acc - 1.0, name=st["name"])
            elif k == "leaf":
                if st["multi"]:
                    outs[sid] = save(acc, acc + 2.0)
                else:
                    outs[sid] = save(acc * 3.0)
            elif k == "ns":
                acc, o = namespace(lambda a, _b=st["body"]: run(_b, a), st["name"])(acc)
                outs.update(o)
            elif k == "fn":
                def inner(a, _b=st["body"]):
                    return run(_b, a)

                acc, o = inner(acc)
                outs.update(o)
            elif k == "scan":
                outer = acc * 0.25 if st.get("cl") else 0.0

                def step(c, x, _b=st["body"], _outer=outer):
                    c2, o = run(_b, c + x + _outer)
                    return c2, o

                acc, o = jax.lax.scan(step, acc, 0.1 * jnp.arange(st["n"], dtype=jnp.float32),
                                      reverse=bool(st.get("rev")), unroll=st.get("unroll", 1))
                outs.update(o)
            elif k in ("vmap", "mvmap"):
                lanes = acc + 0.1 * jnp.arange(st["n"], dtype=jnp.float32)
                vm = jax.vmap if k == "vmap" else gpjax.modular_vmap
                a2, o = vm(lambda a, _b=st["body"]: run(_b, a))(lanes)
                outs.update(o)
                acc = jnp.mean(a2)
        return acc, outs

    return lambda x: run(body, jnp.asarray(x, dtype=jnp.float32))


def expected(body, outs):
    """Fold of the static save events in program order: later write replaces earlier."""
    exp = {}

    def put(path, name, val):
        d = exp
        for p in path:
            if not isinstance(d.get(p), dict):
                d[p] = {}
            d = d[p]
        d[name] = val

    def walk(stmts, path):
        for st in stmts:
            k = st["k"]
            sid = str(st["id"])
            if k == "save":
                for n in st["names"]:
                    put(path, n, outs[sid][n])
            elif k == "tag":
                put(path, st["name"], tuple(outs[sid]) if st["multi"] else outs[sid])
            elif k == "leaf":
                val = tuple(outs[sid]) if st["multi"] else outs[sid]
                # leaf mode stores directly at the namespace path (no additional key)
                d = exp
                for p in path[:-1]:
                    if not isinstance(d.get(p), dict):
                        d[p] = {}
                    d = d[p]
                d[path[-1]] = val
            elif k == "ns":
                walk(st["body"], path + (st["name"],))
            elif "body" in st:
                walk(st["body"], path)

    walk(body, ())
    return exp


def same_tree(a, b, path=""):
    """Same key set, nesting, shapes and values. Returns None or a message."""
    if isinstance(a, dict) or isinstance(b, dict):
        if not (isinstance(a, dict) and isinstance(b, dict)):
            return f"at {path or '/'}: {'dict' if isinstance(a, dict) else 'value'} collected, {'dict' if isinstance(b, dict) else 'value'} expected"
        if set(a) != set(b):
            return f"at {path or '/'}: collected keys {sorted(a)} but saved keys {sorted(b)}"
        for k in a:
            m = same_tree(a[k], b[k], path + "/" + k)
            if m:
                return m
        return None
    if isinstance(a, (tuple, list)) or isinstance(b, (tuple, list)):
        if not (isinstance(a, (tuple, list)) and isinstance(b, (tuple, list))) or len(a) != len(b):
            return f"at {path}: tuple structure differs"
        for i, (x, y) in enumerate(zip(a, b)):
            m = same_tree(x, y, path + f"[{i}]")
            if m:
                return m
        return None
    x, y = np.asarray(a), np.asarray(b)
    if x.shape == y.shape and _close(x, y):
        return None
    # The statement fixes *that* scan values are stacked and vmap values batched, not the relative
    # order of the loop axes when scans and vmaps nest (state sees the program after batching, so a
    # scan inside a vmap is collected as (steps, lanes)). Accept any permutation of the axes.
    if x.ndim == y.ndim and sorted(x.shape) == sorted(y.shape) and x.ndim <= 4:
        import itertools
        for perm in itertools.permutations(range(x.ndim)):
            if tuple(x.shape[i] for i in perm) == y.shape and _close(np.transpose(x, perm), y):
                return None
    if x.shape != y.shape and sorted(x.shape) != sorted(y.shape):
        return f"at {path}: collected shape {x.shape}, saved shape {y.shape}"
    return f"at {path}: collected {x.tolist()} but saved {y.tolist()}"


def _close(x, y):
    if x.dtype.kind == "f":
        return bool(np.allclose(x, y, rtol=1e-5, atol=1e-6))
    return bool(np.array_equal(x, y))


def run_case(case):
    body, cfg, x = case["body"], case["cfg"], case["x"]
    f = build(body)
    viol = []
    probes = {"cfg_" + cfg: 1}
    for k in ("ns", "scan", "vmap", "mvmap", "leaf", "draw"):
        if _has(body, k):
            probes["has_" + k] = 1
    if _nested(body, "ns", "scan"):
        probes["ns_around_scan"] = 1
    if _nested(body, "scan", "scan"):
        probes["nested_scan"] = 1
    if _any(body, lambda st: st["k"] == "scan" and st.get("rev")):
        probes["reverse_scan"] = 1
    if _nested(body, "scan", "ns"):
        probes["ns_in_scan"] = 1
    if _nested(body, "vmap", "scan") or _nested(body, "mvmap", "scan"):
        probes["scan_in_vmap"] = 1
    sig = dict(cfg=cfg)
    try:
        key = jax.random.key(case["key"])
        # one wrapped object per configuration, reused for every call of the history
        sf = state(f)
        if cfg == "eager":
            run_plain, run_state = f, sf
        elif cfg == "jit":
            run_plain, run_state = jax.jit(f), jax.jit(sf)
        elif cfg == "seed":
            run_plain, run_state = (lambda v: gpjax.seed(f)(key, v)), (lambda v, _s=gpjax.seed(sf): _s(key, v))
        elif cfg == "jit_seed":
            run_plain, run_state = (lambda v, _p=jax.jit(gpjax.seed(f)): _p(key, v)), (lambda v, _s=jax.jit(gpjax.seed(sf)): _s(key, v))
        else:
            run_plain, run_state = (lambda v: gpjax.seed(f)(key, v)), state(lambda v: gpjax.seed(f)(key, v))
        xs = [x] + ([case["x2"]] if case.get("x2") is not None else [])
        for call, xv in enumerate(xs):
            if call:
                probes["second_call_same_object"] = 1
            plain = run_plain(xv)
            res, st = run_state(xv)
            # staged evaluation can fuse differently from eager op-by-op dispatch: cross-transformation
            # tolerance (rtol 1e-5); integer / boolean leaves exact
            tag = "" if not call else " (second call of the same wrapped object, other argument)"
            if not world.tree_close(plain, res)[0]:
                viol.append(V("not_transparent", "state_does_not_change_result",
                              "state(f)(x)[0] differs from f(x)" + tag, **sig))
                break
            exp = expected(body, res[1])
            msg = same_tree(st, exp)
            if msg:
                viol.append(V("wrong_collection", "collects_exactly_what_was_saved", msg + tag, **sig))
                break
    except Exception as e:
        viol.append(exc_violation(e, "state", **sig))
    return {"violations": viol, "steps": 1, "probes": probes, "faults": {}, "evals": 1,
            "key": cfg + "|" + shape_key(body),
            "nontrivial": any(_has(body, k) for k in ("ns", "scan", "vmap", "mvmap"))}


def _has(body, kind):
    return any(st["k"] == kind or ("body" in st and _has(st["body"], kind)) for st in body)


def _any(body, pred):
    return any(pred(st) or ("body" in st and _any(st["body"], pred)) for st in body)


def _nested(body, outer, inner):
    for st in body:
        if "body" in st:
            if st["k"] == outer and _has(st["body"], inner):
                return True
            if _nested(st["body"], outer, inner):
                return True
    return False


def shrink(case):
    def sb(body):
        for i in range(len(body)):
            if len(body) > 1:
                yield body[:i] + body[i + 1:]
        for i, st in enumerate(body):
            if "body" in st:
                yield body[:i] + st["body"] + body[i + 1:]
                for s2 in sb(st["body"]):
                    b = copy.deepcopy(body)
                    b[i]["body"] = s2
                    yield b
                if st.get("n", 1) > 1:
                    b = copy.deepcopy(body)
                    b[i]["n"] -= 1
                    yield b
                for kk in ("rev", "unroll", "cl"):
                    if kk in st:
                        b = copy.deepcopy(body)
                        del b[i][kk]
                        yield b
            if st["k"] == "save" and len(st["names"]) > 1:
                b = copy.deepcopy(body)
                b[i]["names"] = st["names"][:1]
                yield b

    if case.get("x2") is not None:
        c = copy.deepcopy(case)
        c["x2"] = None
        yield c
    for b in sb(case["body"]):
        if b:
            c = copy.deepcopy(case)
            c["body"] = b
            yield c
    if case["cfg"] != "eager" and not _has(case["body"], "draw"):
        c = copy.deepcopy(case)
        c["cfg"] = "eager"
        yield c
