"""C20 - the exact state-space baselines are exact.

Simulated clauses: (c) backward_sample / forward_filtering_backward_sampling - the outcome tree over
its categorical sites gives the exact law of the returned state sequence, compared with the
brute-force posterior over all K^T sequences (K <= 3, T <= 4, sparse and dense stochastic matrices,
T = 1 included); (d) the discrete_hmm and linear_gaussian step models iterated T times by feeding the
return value back: outcome tree of simulate (discrete) / assess on reference draws (Gaussian) equal
the textbook joint density. Op-level comparisons with no simulation content: forward_filter rows and
log marginal vs enumeration; kalman_filter / kalman_smoother vs conditioning the dense joint
Gaussian, with d_obs != d_state and T from 1.
"""
import copy
import math
import itertools
import numpy as np
from sim import world, gfi, otree
from sim.gfi import V
from sim.scripted import run_scripted
import jax
import jax.numpy as jnp
from genjax.extras import (forward_filter, backward_sample, forward_filtering_backward_sampling, discrete_hmm,
                           linear_gaussian, kalman_filter, kalman_smoother)
from genjax.extras.state_space import compute_sequence_log_prob

PROP = "C20"


def stoch(rng, rows, cols, sparse):
    M = []
    for _ in range(rows):
        r = [rng.uniform(0.05, 1.0) for _ in range(cols)]
        if sparse and cols > 1:
            for j in rng.sample(range(cols), rng.randint(1, cols - 1)):
                r[j] = 0.0
        s = sum(r)
        M.append([round(x / s, 4) for x in r])
    M = np.array(M)
    M = M / M.sum(axis=1, keepdims=True)
    return M.tolist()


def spd(rng, d, lo=0.2):
    A = np.array([[rng.uniform(-1, 1) for _ in range(d)] for _ in range(d)])
    return (A @ A.T + np.eye(d) * rng.uniform(lo, 1.0)).round(4).tolist()


def gen_case(rng, tier):
    kind = rng.choice(["hmm_filter", "ffbs", "ffbs", "hmm_step", "kalman", "kalman", "lg_step"])
    if kind.startswith("hmm") or kind == "ffbs":
        K, M, T = rng.randint(1, 3), rng.randint(1, 3), rng.randint(1, 4)
        sparse = rng.random() < 0.4
        init = stoch(rng, 1, K, sparse and K > 1)[0]
        trans = stoch(rng, K, K, sparse)
        emis = stoch(rng, K, M, rng.random() < 0.3)  # a symbol some state never emits
        # observations with positive probability
        obs = [rng.randrange(M) for _ in range(T)]
        return {"kind": kind, "K": K, "M": M, "T": T, "init": init, "trans": trans, "emis": emis, "obs": obs,
                "api": rng.choice(["backward_sample", "ffbs"])}
    ds, do, T = rng.randint(1, 3), rng.randint(1, 3), rng.randint(1, 4)
    if rng.random() < 0.7 and ds == do:
        do = ds % 3 + 1
    A = [[round(rng.uniform(-0.9, 0.9), 3) for _ in range(ds)] for _ in range(ds)]
    C = [[round(rng.uniform(-1.5, 1.5), 3) for _ in range(ds)] for _ in range(do)]
    return {"kind": kind, "ds": ds, "do": do, "T": T, "m0": [round(rng.uniform(-1, 1), 3) for _ in range(ds)],
            "P0": spd(rng, ds), "A": A, "Q": spd(rng, ds), "C": C, "R": spd(rng, do),
            "obs": [[round(rng.uniform(-2, 2), 3) for _ in range(do)] for _ in range(T)], "rseed": rng.randint(0, 2**30)}


# ------------------------------------------------------------------ brute force HMM


def hmm_joint(case, states, obs):
    p = case["init"][states[0]] * case["emis"][states[0]][obs[0]]
    for t in range(1, len(states)):
        p *= case["trans"][states[t - 1]][states[t]] * case["emis"][states[t]][obs[t]]
    return p


def hmm_brute(case, T=None):
    T = T or case["T"]
    K = case["K"]
    obs = case["obs"][:T]
    seqs = list(itertools.product(range(K), repeat=T))
    joint = np.array([hmm_joint(case, s, obs) for s in seqs])
    return seqs, joint


def run_hmm_filter(case, viol, probes):
    sig = dict(kind="hmm_filter")
    obs = jnp.asarray(case["obs"], dtype=jnp.int32)
    alpha, lml = forward_filter(obs, jnp.asarray(case["init"]), jnp.asarray(case["trans"]), jnp.asarray(case["emis"]))
    seqs, joint = hmm_brute(case)
    if joint.sum() <= 0:
        probes["impossible_obs"] = 1
        return
    if not world.close(float(lml), math.log(joint.sum()), 1e-4, 1e-4):
        viol.append(V("inexact", "forward_filter_log_marginal", f"log marginal {float(lml)} vs enumeration {math.log(joint.sum())}", **sig))
        return
    for t in range(case["T"]):
        s_t, j_t = hmm_brute(case, t + 1)
        filt = np.zeros(case["K"])
        for s, p in zip(s_t, j_t):
            filt[s[-1]] += p
        filt /= filt.sum()
        got = np.exp(np.asarray(alpha[t], dtype=np.float64))
        if not world.close(got, filt, 1e-4, 1e-5):
            viol.append(V("inexact", "forward_filter_rows_are_filtering_distributions",
                          f"t={t}: {got.tolist()} vs enumeration {filt.tolist()}", **sig))
            return


def run_ffbs(case, viol, probes):
    sig = dict(kind="ffbs", api=case["api"])
    seqs, joint = hmm_brute(case)
    if joint.sum() <= 0:
        probes["impossible_obs"] = 1
        return 0
    post = joint / joint.sum()
    obs = jnp.asarray(case["obs"], dtype=jnp.int32)
    init, trans, emis = jnp.asarray(case["init"]), jnp.asarray(case["trans"]), jnp.asarray(case["emis"])
    if case["api"] == "backward_sample":
        alpha, _ = forward_filter(obs, init, trans, emis)
        run = lambda s: run_scripted(lambda: backward_sample(alpha, trans), s)[0]
        get = lambda r: tuple(int(v) for v in np.asarray(r))
    else:
        run = lambda s: run_scripted(lambda: forward_filtering_backward_sampling(obs, init, trans, emis), s)[0]
        get = lambda r: tuple(int(v) for v in np.asarray(r.states))
    law = {}
    tot = 0.0
    leaves = 0
    for r, P, path in otree.explore(run, max_leaves=400):
        leaves += 1
        tot += P
        law[get(r)] = law.get(get(r), 0.0) + P
        if case["api"] == "ffbs":
            want = math.log(hmm_joint(case, get(r), case["obs"])) if hmm_joint(case, get(r), case["obs"]) > 0 else -math.inf
            if not world.close(float(r.log_prob), want, 1e-4, 1e-4):
                viol.append(V("inexact", "ffbs_log_prob_is_joint", f"log_prob {float(r.log_prob)} vs {want}", **sig))
                return leaves
    probes["tree_complete"] = 1
    if not world.close(tot, 1.0, 1e-5, 1e-5):
        viol.append(V("wrong_distribution", "tree_total_probability", f"sum P = {tot}", **sig))
        return leaves
    for s, p in zip(seqs, post):
        if not world.close(law.get(tuple(s), 0.0), p, 2e-4, 2e-6):
            viol.append(V("inexact", "backward_sampling_draws_from_exact_posterior",
                          f"sequence {s}: sampled with probability {law.get(tuple(s), 0.0)}, exact posterior {p}", **sig))
            return leaves
    return leaves


def run_hmm_step(case, viol, probes):
    """discrete_hmm iterated T times (return value fed back): simulated law == textbook joint."""
    sig = dict(kind="hmm_step")
    init, trans, emis = jnp.asarray(case["init"]), jnp.asarray(case["trans"]), jnp.asarray(case["emis"])
    T = case["T"]

    def roll():
        carry = (jnp.array(0), jnp.array(0), init, trans, emis)
        score = 0.0
        states, obs = [], []
        for t in range(T):
            tr = discrete_hmm.simulate(*carry)
            carry = tr.get_retval()
            score = score + tr.get_score()
            ch = tr.get_choices()
            states.append(ch["state"])
            obs.append(ch["obs"])
        return jnp.stack(states), jnp.stack(obs), score

    tot = 0.0
    leaves = 0
    law = {}
    for (st_, ob_, sc), P, path in otree.explore(lambda s: run_scripted(roll, s)[0], max_leaves=1200):
        leaves += 1
        tot += P
        key = (tuple(int(v) for v in np.asarray(st_)), tuple(int(v) for v in np.asarray(ob_)))
        law[key] = law.get(key, 0.0) + P
        want = hmm_joint(case, key[0], key[1])
        if not world.close(math.exp(-float(sc)), want, 2e-4, 1e-7):
            viol.append(V("inexact", "step_model_score_is_joint", f"exp(-score) {math.exp(-float(sc))} vs joint {want} for {key}", **sig))
            return leaves
    probes["tree_complete"] = 1
    if not world.close(tot, 1.0, 1e-5, 1e-5):
        viol.append(V("wrong_distribution", "tree_total_probability", f"sum P = {tot}", **sig))
        return leaves
    for key, p in law.items():
        if not world.close(p, hmm_joint(case, key[0], key[1]), 2e-4, 1e-7):
            viol.append(V("inexact", "step_model_simulates_the_joint", f"{key}: simulated {p} vs joint {hmm_joint(case, key[0], key[1])}", **sig))
            return leaves
    # assess on every sequence too
    seqs, _ = hmm_brute(case)
    for s in seqs[:9]:
        carry = (jnp.array(0), jnp.array(0), init, trans, emis)
        lp = 0.0
        for t in range(T):
            d, carry = discrete_hmm.assess({"state": jnp.asarray(s[t]), "obs": jnp.asarray(case["obs"][t])}, *carry)
            lp += float(d)
        want = hmm_joint(case, s, case["obs"])
        if want > 0 and not world.close(lp, math.log(want), 1e-4, 1e-4):
            viol.append(V("inexact", "step_model_assess_is_joint", f"{s}: assess {lp} vs {math.log(want)}", **sig))
            return leaves
    return leaves


# ------------------------------------------------------------------ dense Gaussian reference


def lg_dense(case, T=None):
    """Mean and covariance of the joint Gaussian over (x_0..x_{T-1}, y_0..y_{T-1})."""
    T = T or case["T"]
    ds, do = case["ds"], case["do"]
    A, Q, C, R = (np.asarray(case[k], dtype=np.float64) for k in ("A", "Q", "C", "R"))
    m0, P0 = np.asarray(case["m0"], dtype=np.float64), np.asarray(case["P0"], dtype=np.float64)
    mx = [m0]
    for t in range(1, T):
        mx.append(A @ mx[-1])
    Sxx = np.zeros((T * ds, T * ds))
    Pt = [P0]
    for t in range(1, T):
        Pt.append(A @ Pt[-1] @ A.T + Q)
    for i in range(T):
        for j in range(i, T):
            blk = Pt[i]
            for _ in range(j - i):
                blk = blk @ A.T
            Sxx[i * ds:(i + 1) * ds, j * ds:(j + 1) * ds] = blk
            Sxx[j * ds:(j + 1) * ds, i * ds:(i + 1) * ds] = blk.T
    Cb = np.kron(np.eye(T), C)
    Rb = np.kron(np.eye(T), R)
    mean_x = np.concatenate(mx)
    mean_y = Cb @ mean_x
    Syy = Cb @ Sxx @ Cb.T + Rb
    Sxy = Sxx @ Cb.T
    return mean_x, Sxx, mean_y, Syy, Sxy


def mvn_logpdf(x, m, S):
    d = x - m
    sign, ld = np.linalg.slogdet(S)
    return float(-0.5 * (len(x) * math.log(2 * math.pi) + ld + d @ np.linalg.solve(S, d)))


def run_kalman(case, viol, probes):
    sig = dict(kind="kalman", d_state=case["ds"], d_obs=case["do"])
    T, ds = case["T"], case["ds"]
    args = [jnp.asarray(case[k], dtype=jnp.float32) for k in ("m0", "P0", "A", "Q", "C", "R")]
    obs = jnp.asarray(case["obs"], dtype=jnp.float32)
    fm, fc, lml = kalman_filter(obs, *args)
    sm, sc = kalman_smoother(obs, *args)
    y = np.asarray(case["obs"], dtype=np.float64).reshape(-1)
    mean_x, Sxx, mean_y, Syy, Sxy = lg_dense(case)
    want_lml = mvn_logpdf(y, mean_y, Syy)
    tol = dict(rtol=5e-3, atol=5e-3)
    if not world.close(float(lml), want_lml, **tol):
        viol.append(V("inexact", "kalman_log_marginal", f"{float(lml)} vs dense {want_lml}", **sig))
        return
    post_m = mean_x + Sxy @ np.linalg.solve(Syy, y - mean_y)
    post_S = Sxx - Sxy @ np.linalg.solve(Syy, Sxy.T)
    for t in range(T):
        if not world.close(np.asarray(sm[t]), post_m[t * ds:(t + 1) * ds], **tol) or \
                not world.close(np.asarray(sc[t]), post_S[t * ds:(t + 1) * ds, t * ds:(t + 1) * ds], **tol):
            viol.append(V("inexact", "kalman_smoother_moments", f"t={t}: smoothed mean {np.asarray(sm[t]).tolist()} vs "
                          f"{post_m[t * ds:(t + 1) * ds].tolist()}", **sig))
            return
        mx, Sx, my, Sy, Sxy_t = lg_dense(case, t + 1)
        yt = y[: (t + 1) * case["do"]]
        fmean = mx + Sxy_t @ np.linalg.solve(Sy, yt - my)
        fcov = Sx - Sxy_t @ np.linalg.solve(Sy, Sxy_t.T)
        if not world.close(np.asarray(fm[t]), fmean[t * ds:(t + 1) * ds], **tol) or \
                not world.close(np.asarray(fc[t]), fcov[t * ds:(t + 1) * ds, t * ds:(t + 1) * ds], **tol):
            viol.append(V("inexact", "kalman_filter_moments", f"t={t}: filtered mean {np.asarray(fm[t]).tolist()} vs "
                          f"{fmean[t * ds:(t + 1) * ds].tolist()}", **sig))
            return


def run_lg_step(case, viol, probes):
    """linear_gaussian iterated T times: assess on reference draws == dense joint log density;
    scripted simulate: score of the drawn sequence == -joint."""
    sig = dict(kind="lg_step", d_state=case["ds"], d_obs=case["do"])
    T, ds, do = case["T"], case["ds"], case["do"]
    args = tuple(jnp.asarray(case[k], dtype=jnp.float32) for k in ("m0", "P0", "A", "Q", "C", "R"))
    mean_x, Sxx, mean_y, Syy, Sxy = lg_dense(case)
    Cb = np.kron(np.eye(T), np.asarray(case["C"], dtype=np.float64))
    Rb = np.kron(np.eye(T), np.asarray(case["R"], dtype=np.float64))
    rng = np.random.default_rng(case["rseed"])
    xs = rng.multivariate_normal(mean_x, Sxx).astype(np.float32)
    ys = (Cb @ xs + rng.multivariate_normal(np.zeros(T * do), Rb)).astype(np.float32)
    want = mvn_logpdf(xs.astype(np.float64), mean_x, Sxx) + mvn_logpdf(ys.astype(np.float64), Cb @ xs.astype(np.float64), Rb)
    carry = (jnp.zeros(ds), jnp.array(0)) + args
    lp = 0.0
    for t in range(T):
        d, carry = linear_gaussian.assess({"state": jnp.asarray(xs[t * ds:(t + 1) * ds]), "obs": jnp.asarray(ys[t * do:(t + 1) * do])}, *carry)
        lp += float(d)
    if not world.close(lp, want, 5e-3, 5e-3):
        viol.append(V("inexact", "step_model_assess_is_joint", f"iterated assess {lp} vs dense joint {want}", **sig))
        return

    def roll():
        carry = (jnp.zeros(ds), jnp.array(0)) + args
        score = 0.0
        ss, oo = [], []
        for t in range(T):
            tr = linear_gaussian.simulate(*carry)
            carry = tr.get_retval()
            score = score + tr.get_score()
            ss.append(tr.get_choices()["state"])
            oo.append(tr.get_choices()["obs"])
        return jnp.stack(ss), jnp.stack(oo), score

    script = gfi.RefScript(case["rseed"] + 1)
    (ss, oo, sc), log = run_scripted(roll, script)
    xs2 = np.asarray(ss, dtype=np.float64).reshape(-1)
    ys2 = np.asarray(oo, dtype=np.float64).reshape(-1)
    want2 = mvn_logpdf(xs2, mean_x, Sxx) + mvn_logpdf(ys2, Cb @ xs2, Rb)
    if not world.close(-float(sc), want2, 5e-3, 5e-3):
        viol.append(V("inexact", "step_model_score_is_joint", f"scripted simulate: -score {-float(sc)} vs dense joint {want2}", **sig))
        return
    # every draw was made at a site whose parameters are the textbook conditionals
    lpsum = sum(__import__("sim.ref", fromlist=["logpdf"]).logpdf(ln["d"], ln["value"], *ln["params"]) for ln in script.lanes)
    if not world.close(lpsum, want2, 5e-3, 5e-3):
        viol.append(V("inexact", "step_model_sites_are_textbook_conditionals", f"sum of site log-probs {lpsum} vs joint {want2}", **sig))


def run_case(case):
    viol = []
    probes = {"k_" + case["kind"]: 1, "T1": int(case["T"] == 1)}
    if case["kind"] in ("kalman", "lg_step"):
        probes["dobs_ne_dstate"] = int(case["ds"] != case["do"])
    else:
        probes["sparse"] = int(any(v == 0 for r in case["trans"] for v in r))
    evals = 1
    try:
        if case["kind"] == "hmm_filter":
            run_hmm_filter(case, viol, probes)
        elif case["kind"] == "ffbs":
            evals += run_ffbs(case, viol, probes) or 0
        elif case["kind"] == "hmm_step":
            evals += run_hmm_step(case, viol, probes) or 0
        elif case["kind"] == "kalman":
            run_kalman(case, viol, probes)
        else:
            run_lg_step(case, viol, probes)
    except otree.TreeBudget:
        probes["tree_budget"] = 1
    except Exception as e:
        viol.append(gfi.exc_violation(e, case["kind"]))
    dims = (case.get("K"), case.get("M"), case.get("ds"), case.get("do"), case["T"])
    return {"violations": viol, "steps": evals, "probes": probes, "faults": {}, "evals": evals,
            "key": f"{case['kind']}|{dims}|{case.get('api')}|{__import__('hashlib').sha256(str(case.get('trans') or case.get('A')).encode()).hexdigest()[:8]}",
            "nontrivial": case["T"] >= 2, "extra": {"trees_complete": probes.get("tree_complete", 0)}}


def shrink(case):
    if case["T"] > 1:
        c = copy.deepcopy(case)
        c["T"] -= 1
        c["obs"] = c["obs"][: c["T"]]
        yield c
