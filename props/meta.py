"""Static per-property metadata read by the parent process (which never imports jax)."""

COMMON_ASSUME = [
    "JAX 0.11.1 / XLA CPU and threefry key independence are trusted",
    "sim/jaxcompat.py (six JAX-0.7 API adapters) is faithful: validated by the upstream suite going 41 -> 289 passing",
    "exploration is seeded search, not proof: a clean batch is evidence over the runs reported here",
]

TIERS = {
    "C06": {"quick": {"runs": 220, "budget_s": 75, "run_timeout_s": 240},
            "thorough": {"runs": 3000, "budget_s": 900, "run_timeout_s": 400}},
}

META = {
    "C06": {
        "LEVEL": "exploration",
        "RULE": "case = (generated probabilistic function over nested scan/cond/modular_vmap/nested seed/@gen calls, key, "
                "args, seeded history of noise operations, faults and probe points); distinct = distinct "
                "(program shape, operation-kind history, set of global-state signatures seen); non-trivial = "
                "function has >= 2 sample sites or at least one fault actually fired",
        "COMPONENTS": {"real": ["genjax.pjax.Seed / seed", "genjax.pjax.ModularVmap", "genjax.core (handlers, Fn, Vmap)",
                                "TFP samplers", "jax.jit / jax.vmap"],
                       "stub": ["sim/jaxcompat.py API adapter (JAX only)"],
                       "regime": "REAL"},
        "ASSUMPTIONS": COMMON_ASSUME + [
            "golden = the same probe evaluated in a pristine interpreter (helper process restarted every 20 probes)",
            "cross-transformation equality uses rtol 1e-5 on float leaves (eager vs jit differ by <= 4.3e-7 rel., measured); "
            "same-transformation repeats are compared bit for bit"],
        "REQUIRED_PROBES": {"quick": ["probe_points", "cfg_jit", "cfg_vmap"],
                            "thorough": ["probe_points", "cfg_jit", "cfg_vmap", "cfg_jitvmap"]},
    },
}
