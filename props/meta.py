"""Static per-property metadata read by the parent process (which never imports jax)."""

COMMON_ASSUME = [
    "JAX 0.11.1 / XLA CPU and threefry key independence are trusted",
    "sim/jaxcompat.py (six JAX-0.7 API adapters) is faithful: validated by the upstream suite going 41 -> 289 passing",
    "exploration is seeded search, not proof: a clean batch is evidence over the runs reported here",
]

TIERS = {
    "C17": {"quick": {"runs": 130, "budget_s": 240, "run_timeout_s": 900},
            "thorough": {"runs": 3000, "budget_s": 1500, "run_timeout_s": 1800}},
    "C11": {"quick": {"runs": 60, "budget_s": 240, "run_timeout_s": 900},
            "thorough": {"runs": 3000, "budget_s": 1500, "run_timeout_s": 1800}},
    "C08": {"quick": {"runs": 220, "budget_s": 240, "run_timeout_s": 900},
            "thorough": {"runs": 5000, "budget_s": 1200, "run_timeout_s": 1800}},
    "C10": {"quick": {"runs": 160, "budget_s": 240, "run_timeout_s": 900},
            "thorough": {"runs": 3000, "budget_s": 1500, "run_timeout_s": 1800}},
    "C09": {"quick": {"runs": 110, "budget_s": 240, "run_timeout_s": 900},
            "thorough": {"runs": 3000, "budget_s": 1500, "run_timeout_s": 1800}},
    "C20": {"quick": {"runs": 400, "budget_s": 240, "run_timeout_s": 900},
            "thorough": {"runs": 5000, "budget_s": 900, "run_timeout_s": 1800}},
    "C13": {"quick": {"runs": 300, "budget_s": 240, "run_timeout_s": 900},
            "thorough": {"runs": 4000, "budget_s": 900, "run_timeout_s": 1800}},
    "C14": {"quick": {"runs": 160, "budget_s": 240, "run_timeout_s": 900},
            "thorough": {"runs": 6000, "budget_s": 900, "run_timeout_s": 1800}},
    "C16": {"quick": {"runs": 90, "budget_s": 240, "run_timeout_s": 900},
            "thorough": {"runs": 5000, "budget_s": 900, "run_timeout_s": 1800}},
    "C19": {"quick": {"runs": 700, "budget_s": 240, "run_timeout_s": 900},
            "thorough": {"runs": 8000, "budget_s": 900, "run_timeout_s": 1800}},
    "C18": {"quick": {"runs": 180, "budget_s": 240, "run_timeout_s": 900},
            "thorough": {"runs": 3000, "budget_s": 900, "run_timeout_s": 1800}},
    "C12": {"quick": {"runs": 110, "budget_s": 240, "run_timeout_s": 900},
            "thorough": {"runs": 5000, "budget_s": 900, "run_timeout_s": 1800}},
    "C07": {"quick": {"runs": 260, "budget_s": 240, "run_timeout_s": 900},
            "thorough": {"runs": 6000, "budget_s": 900, "run_timeout_s": 1800}},
    "C03": {"quick": {"runs": 130, "budget_s": 240, "run_timeout_s": 900},
            "thorough": {"runs": 6000, "budget_s": 900, "run_timeout_s": 1800}},
    "C04": {"quick": {"runs": 120, "budget_s": 240, "run_timeout_s": 900},
            "thorough": {"runs": 6000, "budget_s": 900, "run_timeout_s": 1800}},
    "C05": {"quick": {"runs": 80, "budget_s": 240, "run_timeout_s": 900},
            "thorough": {"runs": 8000, "budget_s": 1500, "run_timeout_s": 1800}},
    "C02": {"quick": {"runs": 140, "budget_s": 240, "run_timeout_s": 900},
            "thorough": {"runs": 6000, "budget_s": 900, "run_timeout_s": 1800}},
    "C01": {"quick": {"runs": 140, "budget_s": 240, "run_timeout_s": 900},
            "thorough": {"runs": 6000, "budget_s": 900, "run_timeout_s": 1800}},
    "C06": {"quick": {"runs": 24, "budget_s": 240, "run_timeout_s": 900},
            "thorough": {"runs": 3000, "budget_s": 900, "run_timeout_s": 1800}},
}

GFI_COMPONENTS = {"real": ["genjax.core (Fn handlers, Distribution, Vmap, Scan, Cond, traces)",
                           "genjax.pjax (stage, Seed, ModularVmap, batch rules)", "TFP log-densities",
                           "TFP samplers (REAL regime)"],
                  "stub": ["SCRIPTED regime: Seed key-splitting and leaf samplers replaced by sim/scripted.py + reference sampler",
                           "sim/jaxcompat.py API adapter (JAX only)"],
                  "regimes": "REAL + SCRIPTED"}

TM_RULE = ("case = (generated program, argument, seeded history of trace transitions with their configurations and "
           "faults); distinct = distinct (program shape, transition-kind history); non-trivial = program has a combinator "
           "or a fault fired")

META = {
    "C17": {"LEVEL": "exploration",
            "RULE": "case = (conjugate Gaussian target of dimension d in {1,2} with d_obs in {1,2}, variational family in {mean-field, full "
                    "covariance, hand-written scalar} x {reparam, reinforce}, parameters (optionally the exact posterior), learning rate, "
                    "iteration count incl. 1, optimize_vi | elbo_vi); per-draw identities under reference-sampled scripts, quadrature trees "
                    "for value and every gradient direction, optimisation history replayed iteration by iteration under the recorded script; "
                    "distinct = distinct (family, estimator, dims, iterations, api, at-posterior); non-trivial = d >= 2 or >= 2 iterations",
            "COMPONENTS": {"real": ["genjax.inference.vi elbo_factory / optimize_vi / elbo_vi / families", "genjax.adev Expectation + mvn estimators",
                                    "genjax.core merge / assess / simulate"],
                           "stub": ["SCRIPTED: Seed key splitting and leaf samplers", "sim/jaxcompat.py"], "regimes": "SCRIPTED"},
            "ASSUMPTIONS": COMMON_ASSUME + ["closed-form Gaussian posterior / evidence in float64; reference ELBO by 24-node Gauss-Hermite; gradients by central differences"],
            "REQUIRED_PROBES": {"quick": ["tree_complete", "est_reparam", "est_reinforce", "history_optimize_vi"],
                                "thorough": ["tree_complete", "est_reparam", "est_reinforce", "history_optimize_vi", "history_elbo_vi", "at_posterior",
                                             "fam_full_cov", "fam_mean_field", "fam_scalar", "iters_1"]}},
    "C11": {"LEVEL": "exploration",
            "RULE": "case = (expectation program composing 1-3 ADEV primitives with deterministic glue and optionally a cond on a discrete "
                    "value, two scalar parameters, return kind; every internal draw scripted: discrete sites enumerated, continuous sites as "
                    "Gauss-Hermite / Gauss-Legendre nodes; complete weighted outcome tree per directional derivative; REAL per-draw identities "
                    "under seed / jit / modular_vmap); distinct = distinct (kind, primitive sequence, cond, return kind); non-trivial = >= 2 "
                    "primitives or a cond",
            "COMPONENTS": {"real": ["genjax.adev (ADEV CPS interpreter, Expectation.estimate / jvp_estimate / grad_estimate, all primitives)",
                                    "genjax.pjax stage / Seed / ModularVmap", "jax.jvp / jax.grad custom_jvp glue"],
                           "stub": ["SCRIPTED: Seed key splitting and the inner leaf samplers of the estimators", "sim/jaxcompat.py"],
                           "regimes": "SCRIPTED + REAL"},
            "ASSUMPTIONS": COMMON_ASSUME + ["reference E[f] by exact summation and 24-node quadrature of the float64 integrand; derivative by central differences",
                                            "quadrature with 12 (quick) / 20 (thorough) nodes on smooth integrands; tolerance 2e-3 value, 5e-3 gradient (float32 program)"],
            "REQUIRED_PROBES": {"quick": ["tree_complete", "kind_enum_only", "kind_mixed", "kind_reparam_only"],
                                "thorough": ["tree_complete", "kind_enum_only", "kind_mixed", "kind_reparam_only", "enum_exact_checked", "cond"] +
                                            ["p_" + n for n in ("flip_enum flip_enum_parallel cat_enum_parallel normal_reparam uniform_reparam mvn_reparam "
                                                                "mvn_diag_reparam normal_reparam_vec uniform_reparam_vec flip_mvd flip_reinforce normal_reinforce geometric_reinforce mvn_reinforce").split()]}},
    "C08": {"LEVEL": "exploration",
            "RULE": "case = (i) generated per-lane function (deterministic code, log-density sites, TRACER echo/keyprobe sites, real normals with "
                    "tiny scale, sample_shape sites, unmapped higher-rank parameters, keyword parameters, scan / cond / nested modular_vmap) x axis "
                    "specification in {0, 1, -1, None+axis_size, tuple, nested tuple, dict pytree, bare int} x optional outer modular_vmap x "
                    "eager/jit; or (ii) generated model wrapped by .vmap (tuple / int in_axes) or .repeat and driven through simulate, assess, "
                    "generate, update, regenerate; distinct = distinct (part, axis spec, statement set, sizes / model shape); non-trivial = >= 2 lanes",
            "COMPONENTS": {"real": ["genjax.pjax.ModularVmap, sampler and log-density batch rules, static_dim_length", "genjax.core.Vmap (all five GFI methods)",
                                    "jax.vmap (reference layout of the deterministic skeleton)"],
                           "stub": ["TRACER leaf samplers (echo / keyprobe) built with the public tfp_distribution contract",
                                    "part (ii): Seed key splitting and leaf samplers (SCRIPTED)", "sim/jaxcompat.py"], "regimes": "TRACER + REAL + SCRIPTED"},
            "ASSUMPTIONS": COMMON_ASSUME + ["jax.vmap of the deterministic skeleton defines the reference shape / layout",
                                            "echo draws reveal the parameter cell they were paired with (cells of width 1, lane parameters 1 apart)"],
            "REQUIRED_PROBES": {"quick": ["part_mv", "part_comb", "echo_cells", "op_regenerate", "spec_pos1", "spec_dict"],
                                "thorough": ["part_mv", "part_comb", "echo_cells", "kp_lanes", "op_regenerate", "spec_pos1", "spec_posm1", "spec_dict",
                                             "spec_int0", "spec_none", "spec_nested_tuple", "nested_outer", "st_echo_ss", "st_normal_rank", "matrix_lane_axis_2", "matrix_lane_axis_-1",
                                             "st_inner_mv", "st_kw", "wrap_int0", "wrap_repeat"]}},
    "C10": {"LEVEL": "exploration",
            "RULE": "case = one of: machine (generated chain model, N in 1..4, seeded history of init / extend / resample / rejuvenate / change "
                    "under reference-sampled scripts); tree (discrete HMM step model with feedback, N in 1..3, T <= 3, default or custom "
                    "proposals, categorical resampling at seeded steps: complete outcome tree); stat (rejuvenation_smc end-to-end over key "
                    "batches); distinct = distinct (mode, model shape / sizes, move history); non-trivial = N >= 2 or tree/stat mode",
            "COMPONENTS": {"real": ["genjax.inference.smc init/extend/resample/rejuvenate/change/rejuvenation_smc/ParticleCollection",
                                    "genjax.inference.mcmc.mh", "genjax.core generate/merge", "genjax.extras.discrete_hmm", "genjax.pjax.modular_vmap"],
                           "stub": ["machine/tree: Seed key splitting and leaf samplers (SCRIPTED)", "sim/jaxcompat.py"], "regimes": "SCRIPTED + REAL"},
            "ASSUMPTIONS": COMMON_ASSUME + ["trees use categorical resampling only (the systematic offset is a threshold consumer whose cells are "
                                            "covered by C12's sweep); rejuvenation inside trees is not enumerated: its weight-invariance is checked "
                                            "per script and its unbiasedness end-to-end by the REAL two-stage test"],
            "REQUIRED_PROBES": {"quick": ["mode_machine", "mode_tree", "tree_complete", "move_extend", "move_resample"],
                                "thorough": ["mode_machine", "mode_tree", "mode_stat", "tree_complete", "move_extend", "move_resample",
                                             "move_rejuvenate", "move_change", "proposal_custom", "custom_proposal", "partial_proposal", "stat_runs"]}},
    "C09": {"LEVEL": "exploration",
            "RULE": "case = (generated target program, observed address subset, selection expression, kernel in {mh, mala, hmc}, step size, "
                    "leapfrog count, scripted noise / momentum / regenerate outcomes, accept uniform placed at min(1, alpha_ref) x (1 -/+ 1.5%) "
                    "and at 0+/1-; or a complete outcome tree of mh over discrete latents incl. the mixture-indicator move); distinct = "
                    "distinct (mode, program shape, selection, number of observed addresses); non-trivial = combinator in the target or a gradient kernel",
            "COMPONENTS": {"real": ["genjax.inference.mcmc mh/mala/hmc", "genjax.core regenerate/update/assess/filter/merge (incl. Cond, Vmap, Scan)",
                                    "jax.grad of the model log density"],
                           "stub": ["Seed key splitting and all leaf samplers (SCRIPTED)", "sim/jaxcompat.py"], "regimes": "SCRIPTED"},
            "ASSUMPTIONS": COMMON_ASSUME + ["reference gradients by float64 central differences of PPL-ref's log density; float32 proposals "
                                            "compared to 5e-3 relative; acceptance thresholds tested at +-1.5% of alpha_ref",
                                            "Cond switches with unobserved own choices are outside the claim (counted, not checked)"],
            "REQUIRED_PROBES": {"quick": ["mode_mh", "mode_mala", "mode_hmc", "accepted", "rejected", "threshold_runs"],
                                "thorough": ["mode_mh", "mode_mala", "mode_hmc", "mode_mh_tree", "mode_mixture", "accepted", "rejected",
                                             "tree_complete", "mixture_indicator_switch", "selection_in_subcall"]}},
    "C20": {"LEVEL": "exploration",
            "RULE": "case = one of: FFBS / backward_sample outcome tree vs brute-force posterior over K^T sequences (K<=3, T<=4, sparse or "
                    "dense matrices); discrete_hmm step model iterated with feedback (outcome tree of simulate + assess vs textbook joint); "
                    "linear_gaussian step model iterated (assess on reference draws, SCRIPTED simulate) vs dense joint; op-level: "
                    "forward_filter vs enumeration, kalman_filter/smoother vs dense-Gaussian conditioning (d_obs != d_state, T from 1); "
                    "distinct = distinct (kind, sizes, parameters); non-trivial = T >= 2",
            "COMPONENTS": {"real": ["genjax.extras.state_space (forward_filter, backward_sample, FFBS, discrete_hmm, linear_gaussian, "
                                    "kalman_filter, kalman_smoother)", "genjax.core Fn/Distribution"],
                           "stub": ["SCRIPTED: Seed key splitting and categorical / mvn leaf samplers", "sim/jaxcompat.py"], "regimes": "SCRIPTED"},
            "ASSUMPTIONS": COMMON_ASSUME + ["filter / smoother clauses are op-level comparisons (pure functions of their input)",
                                            "float32 Kalman recursions compared with rtol=atol=5e-3 against float64 dense conditioning"],
            "REQUIRED_PROBES": {"quick": ["k_ffbs", "k_kalman", "tree_complete", "T1"],
                                "thorough": ["k_ffbs", "k_kalman", "k_hmm_step", "k_lg_step", "k_hmm_filter", "tree_complete", "T1", "sparse", "dobs_ne_dstate"]}},
    "C13": {"LEVEL": "exploration",
            "RULE": "case = (one of the 24 exported distributions or 2 user wrappers, seeded parameters across the domain, values across "
                    "the support incl. edges, sampler configuration in {sample_shape under seed, jit, modular_vmap lanes, vmap over keys}, "
                    "key); distinct = distinct (distribution, configuration, parameters); every case is non-trivial",
            "COMPONENTS": {"real": ["genjax.distributions (24 exports)", "genjax.core.tfp_distribution / distribution", "genjax.pjax wrap_sampler / "
                                    "wrap_logpdf / Seed / ModularVmap batch rule", "TFP samplers and log_prob"],
                           "stub": ["sim/jaxcompat.py"], "regimes": "REAL"},
            "ASSUMPTIONS": COMMON_ASSUME + ["scipy.stats is the reference for densities / CDFs of the documented parameterisations",
                                            "logpdf and normalisation clauses are op-level comparisons (pure functions); only the sampler clause is simulated",
                                            "two-stage sequential test: p<1e-6 twice, second batch 8x larger with a fresh key"],
            "REQUIRED_PROBES": {"quick": ["logpdf_points", "normalisation", "sampler_tests", "mode_sample_shape", "mode_mvmap_lanes", "mode_vmap_keys",
                                          "mode_kw_scalar_then_batched", "mode_kw_batched_then_scalar"],
                                "thorough": ["logpdf_points", "normalisation", "sampler_tests"] + ["d_" + n for n in (
                                    "bernoulli flip beta categorical geometric normal uniform exponential poisson multivariate_normal dirichlet binomial gamma "
                                    "log_normal student_t laplace half_normal inverse_gamma weibull cauchy chi2 multinomial negative_binomial zipf user_logistic user_gumbel").split()]}},
    "C14": {"LEVEL": "exploration",
            "RULE": "case = (placement: chain of <= 3 wrappers from {jit, scan, while_loop, fori_loop, cond, switch, grad, vmap, "
                    "vmap with unbatched site, checkpoint, custom_jvp} around a site written as dist.sample / dist(...) / @gen simulate; "
                    "seeded history of unseeded and seeded probes with fresh function objects, flag flips, cache flushes, logical-clock "
                    "jumps, failing neighbours); distinct = distinct (placement, site form, history); non-trivial = nesting >= 2 or a fault fired",
            "COMPONENTS": {"real": ["genjax.pjax (sample_p lowering rule, batch rule, Seed interpreter, module flags, global_counter)",
                                    "jax.jit / lax control flow / jax.vmap / jax.grad / jax.checkpoint / jax.custom_jvp"],
                           "stub": ["sim/jaxcompat.py"], "regimes": "REAL"},
            "ASSUMPTIONS": COMMON_ASSUME + ["a cache hit on an executable compiled while a neighbour had explicitly disabled the exception "
                                            "is not a compile attempt: probes are rebuilt as fresh function objects"],
            "REQUIRED_PROBES": {"quick": ["unseeded_probe", "seeded_probe", "unseeded_raised_lowering", "seeded_returned", "seeded_raised"],
                                "thorough": ["unseeded_probe", "seeded_probe", "unseeded_raised_lowering", "unseeded_raised_notimpl",
                                             "seeded_returned", "seeded_raised", "w_checkpoint", "w_custom_jvp", "w_while"]}},
    "C16": {"LEVEL": "exploration",
            "RULE": "case = (generated program with nested / vectorised / scanned / Cond-merged leaves, 3-6 generated selection "
                    "expressions of nesting <= 3 over its address alphabet, kernel mala|hmc); distinct = distinct (program shape, "
                    "selection expressions); non-trivial = some selection is compound and the program has a combinator",
            "COMPONENTS": {"real": ["genjax.core selections (match chain), Fn/Vmap/Scan/Cond filter and merge, regenerate", "genjax.inference.mcmc mala/hmc"],
                           "stub": ["SCRIPTED kernel runs: Seed key splitting and leaf samplers (accept uniform scripted to accept)", "sim/jaxcompat.py"],
                           "regimes": "REAL (regenerate) + SCRIPTED (kernels)"},
            "ASSUMPTIONS": COMMON_ASSUME + ["chained-match and filter/merge clauses are op-level comparisons with no scheduling content",
                                            "a fresh continuous draw differs from the old value (exact, probability 1)"],
            "REQUIRED_PROBES": {"quick": ["selections", "regen", "kernel_moves", "filter"], "thorough": ["selections", "regen", "kernel_moves", "filter"]}},
    "C19": {"LEVEL": "exploration",
            "RULE": "case = (generated program placing save / tag_state / leaf-mode save inside nested functions, namespaces, scans "
                    "(nested, namespaces around scans), vmap and modular_vmap; configuration eager / jit / seed(state(f)) / "
                    "state(seed(f)) / jit(seed(state(f)))); distinct = distinct (configuration, program shape); non-trivial = "
                    "program contains a namespace, scan or vmap",
            "COMPONENTS": {"real": ["genjax.state (State interpreter, save, tag_state, namespace, scan handling, batch rules)",
                                    "genjax.pjax.Seed / ModularVmap", "jax.jit / jax.vmap / lax.scan"],
                           "stub": ["sim/jaxcompat.py"], "regimes": "REAL (eager / jit / seed)"},
            "ASSUMPTIONS": COMMON_ASSUME + ["saved values are also returned through ordinary JAX outputs; the expected dictionary is the "
                                            "last-writer-wins fold of the static save events over those outputs",
                                            "the pure clauses (eager transparency) are op-level comparisons with no scheduling content"],
            "REQUIRED_PROBES": {"quick": ["cfg_eager", "cfg_jit", "cfg_seed", "has_ns", "has_scan", "has_vmap"],
                                "thorough": ["cfg_eager", "cfg_jit", "cfg_seed", "cfg_state_of_seed", "has_ns", "has_scan", "has_vmap",
                                             "has_mvmap", "ns_around_scan", "nested_scan", "scan_in_vmap", "has_leaf"]}},
    "C18": {"LEVEL": "exploration",
            "RULE": "case = (generated model, kernel in {mh, mala, hmc, composite saving several diagnostics, deterministic}, selection, "
                    "(n_steps, burn_in, thinning, n_chains), regime SCRIPTED (chain vs Python-loop fold under the same script) or REAL "
                    "(thinned vs slice of un-thinned, same key)); distinct = distinct (model shape, kernel, step grid, regime); "
                    "non-trivial = more than one step and burn-in, thinning or several chains in play",
            "COMPONENTS": {"real": ["genjax.inference.mcmc.chain/mh/mala/hmc", "genjax.state (state/save, scan collection)",
                                    "genjax.pjax.modular_vmap (n_chains)", "genjax.core"],
                           "stub": ["SCRIPTED runs: Seed key splitting and leaf samplers", "sim/jaxcompat.py"], "regimes": "SCRIPTED + REAL"},
            "ASSUMPTIONS": COMMON_ASSUME + ["SCRIPTED comparisons use the cross-transformation tolerance (rtol 1e-5)"],
            "REQUIRED_PROBES": {"quick": ["k_mh", "regime_scripted", "regime_real", "thin_gt1", "burn_gt0"],
                                "thorough": ["k_mh", "k_mala", "k_hmc", "k_composite", "closed_form", "regime_scripted", "regime_real", "chains_2"]}},
    "C12": {"LEVEL": "exploration",
            "RULE": "case = (generated model, particle count N in 1..8, generated log-weight vector kind, method, SCRIPTED schedule of "
                    "the resampling randomness: offset sweep over a grid plus all (k+u)/N boundaries +- 1e-4, complete outcome tree of "
                    "categorical index vectors for N<=4, or reference-sampled scripts); distinct = distinct (model shape, N, weight kind, "
                    "method, mode); non-trivial = N >= 2",
            "COMPONENTS": {"real": ["genjax.inference.smc.init/resample/systematic_resample/resample_vectorized_trace",
                                    "genjax.core (Vmap'd generate)", "genjax.pjax (modular_vmap)"],
                           "stub": ["Seed key splitting and the uniform / categorical leaf samplers (SCRIPTED)", "sim/jaxcompat.py"],
                           "regimes": "SCRIPTED"},
            "ASSUMPTIONS": COMMON_ASSUME + ["floor/ceil bounds are relaxed by 1e-4 in N*w to absorb float32 cumulative sums"],
            "REQUIRED_PROBES": {"quick": ["sweep", "tree_complete", "sampled"], "thorough": ["sweep", "tree_complete", "sampled", "w_partial_inf", "w_onehot"]}},
    "C07": {"LEVEL": "exploration",
            "RULE": "case = (generated program shape over sites / nested scans / modular_vmap / cond / nested seed / @gen calls, "
                    "top-level keys, mode: TRACER key-fingerprint run, REAL distinctness run, or statistical batch); distinct = "
                    "distinct (mode, program shape); non-trivial = at least 2 sites and at least one of scan/vmap/cond/nested seed/gen",
            "COMPONENTS": {"real": ["genjax.pjax.Seed (key splitting, scan fold_in, cond split)", "genjax.pjax.ModularVmap + batch rules",
                                    "TFP samplers (REAL modes)"],
                           "stub": ["TRACER: leaf samplers replaced by key-fingerprint distributions built with the public tfp_distribution contract",
                                    "sim/jaxcompat.py API adapter (JAX only)"], "regimes": "TRACER + REAL"},
            "ASSUMPTIONS": COMMON_ASSUME + ["distinct threefry keys give independent streams",
                                            "statistical clauses use a two-stage test (z>5.4 twice, second batch 8x larger)"],
            "REQUIRED_PROBES": {"quick": ["tracer_runs", "real_distinct_runs", "stat_runs", "shape_scan", "shape_mvmap"],
                                "thorough": ["tracer_runs", "real_distinct_runs", "stat_runs", "shape_scan", "shape_mvmap",
                                             "shape_cond", "shape_nseed", "scan_of_vmap", "vmap_of_scan", "cond_in_scan"]}},
    "C03": {"LEVEL": "exploration", "RULE": TM_RULE + "; transitions: init, update (gf.update / Trace.update, new args that "
            "flip Cond predicates, constraint subsets), round trip with the discard", "COMPONENTS": GFI_COMPONENTS,
            "ASSUMPTIONS": COMMON_ASSUME + ["PPL-ref reference trace (dict + args) is the oracle"],
            "REQUIRED_PROBES": {"quick": ["update", "roundtrip", "update_new_args"],
                                "thorough": ["update", "roundtrip", "update_new_args", "update_branch_switch"]}},
    "C04": {"LEVEL": "exploration", "RULE": TM_RULE + "; transitions: regenerate with generated selection expressions under "
            "eager/jit/vmap/SCRIPTED randomness", "COMPONENTS": GFI_COMPONENTS,
            "ASSUMPTIONS": COMMON_ASSUME + ["PPL-ref and the Boolean meaning of selection expressions are the oracle"],
            "REQUIRED_PROBES": {"quick": ["regenerate", "regen_scripted", "regen_empty", "regen_full", "regen_partial"],
                                "thorough": ["regenerate", "regen_scripted", "regen_empty", "regen_full", "regen_partial",
                                             "regen_on_scan", "regen_on_vcall", "regen_selects_into_subcall"]}},
    "C05": {"LEVEL": "exploration", "RULE": TM_RULE + "; transitions: update, regenerate, mh, mala, hmc, lane indexing, "
            "resample_vectorized_trace, jit round trip, two-path telescoping update, fork / checkout of older traces (the history is "
            "a tree) with every operation's input trace and constraint map required to stay bit-identical", "COMPONENTS": GFI_COMPONENTS,
            "ASSUMPTIONS": COMMON_ASSUME + ["PPL-ref reference trace is the oracle; provenance of observed addresses tracked by the machine"],
            "REQUIRED_PROBES": {"quick": ["update", "regenerate", "mh", "jit_roundtrip", "telescope", "fork", "checkout"],
                                "thorough": ["update", "regenerate", "mh", "mala", "hmc", "jit_roundtrip", "telescope",
                                             "lane_index", "lane_resample", "recovered_after_fault", "fork", "checkout"]}},
    "C02": {
        "LEVEL": "exploration",
        "RULE": "case = (generated program, argument, seeded history of generate calls each with a seeded subset of the "
                "address set as constraints (none / all / partial / inside vectorised or scanned sub-calls / whole sub-call "
                "missing / None) under eager, jit, vmap-of-keys or SCRIPTED randomness; outcome trees for discrete programs); "
                "distinct = distinct (program shape, per-op configuration and constraint mode); non-trivial = program has a combinator",
        "COMPONENTS": GFI_COMPONENTS,
        "ASSUMPTIONS": COMMON_ASSUME + ["PPL-ref is the oracle; brute-force marginals enumerate all completions of the unconstrained discrete sites"],
        "REQUIRED_PROBES": {"quick": ["generate", "scripted", "none", "all", "partial", "tree_complete"],
                            "thorough": ["generate", "scripted", "none", "all", "partial", "tree_complete", "subcall_missing", "none_arg"]},
    },
    "C01": {
        "LEVEL": "exploration",
        "RULE": "case = (generated program over site/call/vsite/vcall/scan/cond blocks with shared or disjoint Cond "
                "addresses, kwargs and event-shaped sites; argument; seeded history of simulate (eager/jit/vmap/jit-vmap), "
                "scripted simulate, assess on reference-generated choice maps, outcome trees, faults); distinct = distinct "
                "(program shape, operation-kind history); non-trivial = program contains a combinator or a fault fired",
        "COMPONENTS": GFI_COMPONENTS,
        "ASSUMPTIONS": COMMON_ASSUME + [
            "PPL-ref (sim/ref.py: numpy float64, Python loops, hand-written densities) is the oracle",
            "float32 log-densities compared with rtol=atol=3e-4; generated parameters clamped away from degenerate regimes"],
        "REQUIRED_PROBES": {"quick": ["simulate", "scripted", "assess_ref", "tree_complete"],
                            "thorough": ["simulate", "scripted", "assess_ref", "tree_complete", "cond_dead_branch"]},
    },
    "C06": {
        "LEVEL": "exploration",
        "RULE": "case = (generated probabilistic function over nested scan/cond/modular_vmap/nested seed/@gen calls, key, "
                "args, seeded history of noise operations, faults and probe points); distinct = distinct "
                "(program shape, operation-kind history, set of global-state signatures seen); non-trivial = "
                "function has >= 2 sample sites or at least one fault actually fired",
        "COMPONENTS": {"real": ["genjax.pjax.Seed / seed", "genjax.pjax.ModularVmap", "genjax.core (handlers, Fn, Vmap)",
                                "TFP samplers", "jax.jit / jax.vmap"],
                       "stub": ["sim/jaxcompat.py API adapter (JAX only)"],
                       "regime": "REAL"},
        "ASSUMPTIONS": COMMON_ASSUME + [
            "golden = the same probe evaluated in a pristine interpreter (helper process restarted every 20 probes)",
            "cross-transformation equality uses rtol 1e-5 on float leaves (eager vs jit differ by <= 4.3e-7 rel., measured); "
            "same-transformation repeats are compared bit for bit"],
        "REQUIRED_PROBES": {"quick": ["probe_points", "cfg_jit", "cfg_vmap", "cfg_rebuilt"],
                            "thorough": ["probe_points", "cfg_jit", "cfg_vmap", "cfg_jitvmap", "cfg_rebuilt"]},
    },
}

DST = "deterministic simulation with fault injection"
CLAIMS = {
    "C17": dict(text="every draw of the ELBO estimator is scripted: per-draw identity with log p - log q, tightness at the exact posterior for every draw, quadrature totals for the ELBO and each gradient direction against closed forms, and the optimisation history replayed iteration by iteration under the script it consumed",
                ref="DESIGN.md 4 C17", note="conjugate Gaussian targets only (closed forms); float32 tolerance 2e-3 / 1e-2 (gradients)", technique=DST + " (SCRIPTED randomness seam: quadrature trees + recorded optimisation history replay)"),
    "C11": dict(text="every internal draw of the estimators is scripted: weighted outcome trees (enumeration x quadrature nodes) give E[estimate] and E[jvp tangent] exactly up to quadrature error and compare them with E[f], dE[f] of the reference integrand; enumeration-only programs consume no randomness; per-draw grad/jvp consistency under seed/jit/modular_vmap; sites inside cond branches; REAL two-stage mean-gradient tests wherever a pure continuation runs a primitive's keyed sampler",
                ref="DESIGN.md 4 C11", note="smooth integrands, <=3 primitives, quadrature tolerance 2e-3/5e-3", technique=DST + " (SCRIPTED randomness seam: outcome tree x quadrature nodes)"),
    "C08": dict(text="TRACER sites under the real ModularVmap show, per lane, which parameter cell each draw was paired with and which key it got; layouts compared with jax.vmap of the deterministic skeleton for generated axis specifications; Vmap/repeat combinators checked lane by lane against the reference for all five GFI methods",
                ref="DESIGN.md 4 C08", note="bounded sizes (<=4 lanes, depth 2); jax.vmap layout trusted", technique=DST + " (TRACER randomness seam under the real batching rules; SCRIPTED lane-wise reference)"),
    "C10": dict(text="SMC pipelines as histories of moves: per-particle weight identity against the reference along the ancestry after every move; complete outcome trees give E[exp(lml)] and E[exp(lml)*estimate(h)] exactly and compare them with brute-force evidence / posterior integrals after every step; rejuvenation_smc end-to-end by a two-stage test; pilot runs on the same model/proposal objects; zero-weight particles and dead collections",
                ref="DESIGN.md 4 C10", note="tiny discrete models for trees (K=M=2, N<=3, T<=3); chain models for the machine", technique=DST + " (SCRIPTED randomness seam: move histories + outcome-tree explorer; REAL key batches)"),
    "C09": dict(text="every internal draw of a kernel step is scripted: proposals compared with the reference proposal formulas, per-coordinate noise counted, the accept uniform placed either side of the reference threshold, rejected moves bit-identical; complete outcome trees give the exact mh transition matrix, checked for detailed balance and invariance against the reference posterior",
                ref="DESIGN.md 4 C09", note="float32 vs float64-FD tolerance 5e-3; thresholds at +-1.5%; small discrete state spaces for trees", technique=DST + " (SCRIPTED randomness seam with adversarially placed accept thresholds + outcome-tree transition matrix)"),
    "C20": dict(text="backward sampling and the step models are decided through the randomness seam: complete outcome trees give the exact law of the sampled state sequence / simulated joint, compared with brute-force enumeration and dense-Gaussian conditioning; filter/smoother are op-level comparisons against the same references",
                ref="DESIGN.md 4 C20", note="small sizes (K,M<=3, T<=4, d<=3); float32 tolerance 5e-3 for Kalman recursions", technique=DST + " (SCRIPTED randomness seam + outcome-tree explorer; brute-force / dense-Gaussian reference)"),
    "C13": dict(text="sampler clause simulated over keys and vectorisation configurations (seed, jit, modular_vmap, vmap of keys) with shape/dtype exact and two-stage goodness-of-fit tests against scipy; logpdf and normalisation compared op by op against scipy (pure clauses, labelled as such); user wrappers incl. one closing over array constants; nested lanes with different parameters",
                ref="DESIGN.md 4 C13", note="scipy.stats reference; statistical clauses have false-alarm probability ~1e-12 per hypothesis", technique=DST + " (REAL randomness seam over key batches and configurations; op-level reference comparison for the pure clauses)"),
    "C14": dict(text="seeded search over placements of a sampling site in JAX control flow/transformations and over histories of flag flips, cache flushes, logical-clock jumps and failing neighbours; unseeded compile attempts must raise, seeded results must follow the key and not the clock; persistent function objects probed seeded then unseeded; chains of opaque wrappers",
                ref="DESIGN.md 4 C14", note="placements bounded to depth 3; fresh function objects per probe", technique=DST + " (logical-clock jumps + cache loss between repeated seeded calls expose hidden randomness)"),
    "C16": dict(text="through the randomness seam: the leaves redrawn by regenerate and moved by mala/hmc (SCRIPTED accept) are exactly the leaves filter selects and the Boolean meaning of generated selection expressions; chained match / filter-merge partition as op-level comparisons",
                ref="DESIGN.md 4 C16", note="algebra clauses are pure op-level comparisons (stated in the evidence); bounded nesting",
                technique=DST + " (randomness seam shows which leaves receive fresh randomness; Boolean-algebra reference)"),
    "C19": dict(text="save events as messages, the returned dict as delivery: exactly-once, last-writer-wins, in-order stacking, checked for generated placements under eager/jit/seed against the fold of the same events over the program's own returned values; repeated calls of one wrapped object; reverse/unrolled scans; bodies closing over per-call values",
                ref="DESIGN.md 4 C19", note="eager-only clauses are op-level comparisons; save inside cond branches is outside the claim and not generated",
                technique=DST + " (event-history oracle over save messages; REAL regime under seed/jit)"),
    "C18": dict(text="history refinement: chain(kernel) under a script vs a Python-loop fold of the same kernel under the same script, for seeded (n_steps, burn_in, thinning, n_chains) and kernels; REAL thinned run vs slice of the un-thinned run bit for bit; one chain object reused across settings within a history",
                ref="DESIGN.md 4 C18", note="script-identical randomness is provided by the SCRIPTED seam; sampled grids", technique=DST + " (SCRIPTED randomness seam, recorded iterate history vs fold)"),
    "C12": dict(text="the resampling randomness is a schedule decision: systematic offsets swept over a grid and all cell boundaries, categorical index vectors enumerated completely for N<=4; copy faithfulness, weight reset, lml conservation, floor/ceil copies and exact expected copies checked per script; earlier resampling steps with other sizes in the same history",
                ref="DESIGN.md 4 C12", note="float32 cumsum tolerance 1e-4 in N*w; sampled weight vectors", technique=DST + " (SCRIPTED randomness seam: offset sweep + outcome tree)"),
    "C01": dict(text="seeded search over generated programs and operation histories; every simulate/assess compared with an independent reference PPL; small discrete programs covered by complete outcome trees (simulated distribution == assessed density outcome by outcome); REAL regime: shared-noise detection over one-family programs and probability-integral-transform tests of seeded draws (two-stage); bare Distribution/Vmap programs; keyword and static-argument call forms",
                ref="DESIGN.md 4 C01", note="PPL-ref, scipy.special, JAX/XLA CPU, jaxcompat adapter trusted; bounded program sizes",
                technique=DST + " (SCRIPTED randomness seam + outcome-tree explorer, REAL eager/jit/vmap, faults between operations)"),
    "C02": dict(text="seeded search over programs x constraint subsets x randomness regimes; per-run weight identity, scripted routing of unconstrained sites, complete outcome trees giving sum P*exp(weight) == brute-force marginal; histories on one function object whose static argument changes the visited addresses",
                ref="DESIGN.md 4 C02", note="as C01", technique=DST + " (SCRIPTED randomness seam + outcome-tree explorer)"),
    "C03": dict(text="stateful simulation of update transitions against a reference trace: density ratio (also across Cond branch switches), persistence, discard, round trip",
                ref="DESIGN.md 4 C03", note="as C01", technique=DST + " (trace state machine vs reference model, faults between transitions)"),
    "C04": dict(text="stateful simulation of regenerate transitions with generated selection expressions; scripted routing shows exactly the selected leaves are redrawn from the conditional prior; MH weight identity; definedness",
                ref="DESIGN.md 4 C04", note="as C01", technique=DST + " (trace state machine + SCRIPTED randomness seam)"),
    "C05": dict(text="long seeded histories of edits and inference moves with exception/cache-loss/re-entrancy faults; trace re-derived from the reference after every step; telescoping along two paths; histories are trees (fork / checkout of older traces); every operation must leave its input trace and constraint map bit-identical",
                ref="DESIGN.md 4 C05", note="as C01", technique=DST + " (trace state machine, histories + fault sequences)"),
    "C06": dict(text="seeded search over generated seeded functions and interleaved histories of noise operations and faults; every probe point compared bit-for-bit with a golden from a pristine interpreter and across eager/jit/vmap/jit(vmap); persistent seeded GFI-method objects reused across argument structures that change which sites run",
                ref="DESIGN.md 4 C06", note="trusts JAX/XLA CPU determinism, threefry, the jaxcompat adapter; sampled histories, not all",
                technique=DST + " (operation/fault histories over the process-global state seams, pristine-process golden)"),
    "C07": dict(text="TRACER runs expose the key delivered to every (site, iteration, lane); pairwise distinctness is exact; marginal/independence of real samplers by two-stage tests over key batches",
                ref="DESIGN.md 4 C07", note="threefry independence for distinct keys trusted", technique=DST + " (TRACER randomness seam: key-fingerprint distributions under the real Seed/ModularVmap)"),
}
NOT_APPLICABLE = [
    {"property_id": "C15", "reason": "pure function of its input: programs without random choices have no sample site, key, hidden state, history or fault that could change jvp_estimate/grad_estimate; deciding it is differential testing against jax.jvp, not simulation (DESIGN.md 5)"},
]
NOTES = "All checks: ./check <ID> --tier quick|thorough [--seed N] [--replay F]; one integer (VERIF_SEED) decides every run; replay files under replays/<ID>/."
