"""Pristine-interpreter golden server for C06: reads one JSON request per line, answers with the
leaves of seed(f)(key, acc0) computed in a process that never ran anything else but such probes."""
import sys
import json


def main():
    from sim import world, pf
    import jax
    from genjax import pjax as gpjax
    from props.c06 import encode

    table = pf.dist_table()
    for line in sys.stdin:
        line = line.strip()
        if not line:
            continue
        req = json.loads(line)
        world.reset()
        try:
            f = pf.build_pf(req["pf"], table, kwargs_form=req["kw"])
            kw = {"shift": 0.25} if req["kw"] else {}
            r = gpjax.seed(f)(jax.random.key(req["key"]), req["acc0"], **kw)
            r2 = gpjax.seed(f)(jax.random.key(req["key"] + 1), req["acc0"], **kw)
            out = {"leaves": encode(r), "leaves_otherkey": encode(r2)}
        except Exception as e:
            out = {"error": type(e).__name__ + ": " + str(e)[:300]}
        sys.stdout.write(json.dumps(out) + "\n")
        sys.stdout.flush()


if __name__ == "__main__":
    main()
