"""C04 - regenerate resamples exactly the selection and returns the MH weight.

Selections are generated expressions (strings, tuples, dicts, all, none, |, ^, ~) over the
program's address alphabet. SCRIPTED: the sites consulted are exactly the leaves the reference's
Boolean semantics selects, with the reference's conditional-prior parameters under the (possibly
new) arguments. Definedness: any exception is a violation.
"""
from sim import gfi, ref, selections, tracemachine as tm, bare

PROP = "C04"


def gen_case(rng, tier):
    if rng.random() < 0.12:
        # a bare Distribution / Vmap-of-Distribution used directly through the GFI (sim/bare.py)
        return bare.gen_case(rng, tier, "regenerate")
    c = gfi.gen_model_case(rng, tier)
    paths = ref.model_paths(c["model"])
    ops = [{"op": "init", "how": rng.choice(["simulate", "generate"]), "key": rng.randint(0, 2**30),
            "rseed": rng.randint(0, 2**30), "paths": [list(p) for p in gfi.pick_subset(rng, paths)], "cfg": "eager"}]
    n = rng.randint(1, 4 if tier == "quick" else 8)
    for _ in range(n):
        if rng.random() < 0.1:
            ops.append(tm.gen_fault(rng, c["model"]))
            continue
        r = rng.random()
        if r < 0.12:
            s = {"t": "none"}
        elif r < 0.24:
            s = {"t": "all"}
        else:
            s = selections.gen_sel(rng, paths, depth=rng.choice([0, 1, 1, 2]))
        ops.append({"op": "regenerate", "sel": s, "key": rng.randint(0, 2**30),
                    "h": round(rng.uniform(-1.2, 1.2), 3) if rng.random() < 0.3 else None,
                    "cfg": rng.choice(["eager", "scripted", "scripted", "jit", "vmap"])})
    c["ops"] = ops
    return c


def run_case(case):
    if "bare" in case:
        return bare.run_case(case)
    return tm.run_history(case)


def shrink(case):
    return bare.shrink(case) if "bare" in case else tm.shrink_history(case)
