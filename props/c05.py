"""C05 - traces stay coherent under any history of edits and inference moves (core target).

The full trace machine: long seeded histories of update / regenerate / mh / mala / hmc /
lane indexing / resample_vectorized_trace / jit round trips / two-path telescoping updates, with
faults (exception at a model site, user errors, cache loss, re-entrant GFI use) between them. Histories
are trees: a trace can be kept (fork) and resumed later (checkout) after other operations consumed
it, and no operation may modify the trace / constraint map it was given.
After every step the touched trace is re-derived from PPL-ref; after a failed operation the
durable state must be intact and the next operation must succeed.
"""
from sim import gfi, ref, progs, selections, tracemachine as tm, bare

PROP = "C05"


def gen_case(rng, tier):
    if rng.random() < 0.12:
        # a bare Distribution / Vmap-of-Distribution used directly through the GFI (sim/bare.py)
        return bare.gen_case(rng, tier, "mixed")
    c = gfi.gen_model_case(rng, tier, depth=rng.choice([0, 1, 1, 2]))
    model = c["model"]
    paths = ref.model_paths(model)
    faulty = rng.random() < 0.5
    ops = [{"op": "init", "how": rng.choice(["simulate", "generate", "generate"]), "key": rng.randint(0, 2**30),
            "rseed": rng.randint(0, 2**30), "paths": [list(p) for p in gfi.pick_subset(rng, paths)], "cfg": "eager"}]
    n = rng.randint(4, 10) if tier == "quick" else rng.randint(8, 24)
    for _ in range(n):
        if faulty and rng.random() < 0.2:
            f = tm.gen_fault(rng, model)
            ops.append(f)
            if f["kind"] == "exc_site" and rng.random() < 0.8:
                # after a call that failed part-way: move to another trace, then use the same interface again
                # (whatever the failed call left behind must not leak into an operation on a different trace)
                ops.append({"op": "regenerate", "sel": {"t": "all"}, "key": rng.randint(0, 2**30), "h": None, "cfg": "eager"})
                m = f.get("method")
                if m == "regenerate":
                    ops.append({"op": "regenerate", "sel": selections.gen_sel(rng, paths, depth=1), "key": rng.randint(0, 2**30),
                                "h": None, "cfg": "eager"})
                else:
                    ops.append({"op": "update", "h": None, "paths": [list(p) for p in gfi.pick_subset(rng, paths, "one")],
                                "rseed": rng.randint(0, 2**30), "api": "gf", "cfg": "eager", "roundtrip": False})
            continue
        k = rng.choice(["update", "update", "regenerate", "regenerate", "mh", "mh", "mala", "hmc",
                        "jit_roundtrip", "vectorise", "telescope", "fork", "checkout"])
        key = rng.randint(0, 2**30)
        if k == "update":
            ops.append({"op": "update", "h": round(rng.uniform(-1.2, 1.2), 3) if rng.random() < 0.5 else None,
                        "paths": [list(p) for p in gfi.pick_subset(rng, paths)], "rseed": key,
                        "api": rng.choice(["gf", "trace"]), "cfg": rng.choice(["eager", "eager", "jit"]), "roundtrip": False})
        elif k == "regenerate":
            ops.append({"op": "regenerate", "sel": selections.gen_sel(rng, paths, depth=rng.choice([0, 1, 2])), "key": key,
                        "h": round(rng.uniform(-1.2, 1.2), 3) if rng.random() < 0.25 else None,
                        "cfg": rng.choice(["eager", "eager", "scripted", "jit"])})
        elif k in ("mh", "mala", "hmc"):
            op = {"op": k, "sel": selections.gen_sel(rng, paths, depth=rng.choice([0, 0, 1])), "key": key,
                  "cfg": rng.choice(["eager", "eager", "jit"])}
            if k != "mh":
                op["step"] = rng.choice([0.05, 0.1, 0.3])
            if k == "hmc":
                op["n"] = rng.randint(1, 3)
            ops.append(op)
        elif k == "jit_roundtrip":
            ops.append({"op": "jit_roundtrip"})
        elif k == "fork":
            ops.append({"op": "fork"})
        elif k == "checkout":
            ops.append({"op": "checkout", "i": rng.randint(0, 3)})
        elif k == "vectorise":
            n_l = rng.randint(1, 4)
            ops.append({"op": "vectorise", "n": n_l, "how": rng.choice(["index", "resample"]), "i": rng.randint(0, 3),
                        "key": key, "method": rng.choice(["categorical", "systematic"]),
                        "logw": [round(rng.uniform(-3, 0), 2) for _ in range(4)]})
        else:
            ops.append({"op": "telescope", "h_mid": round(rng.uniform(-1.2, 1.2), 3), "h_fin": round(rng.uniform(-1.2, 1.2), 3),
                        "paths_fin": [list(p) for p in gfi.pick_subset(rng, paths)],
                        "paths_mid": [list(p) for p in gfi.pick_subset(rng, paths)], "rseed": key})
    c["ops"] = ops
    return c


def run_case(case):
    if "bare" in case:
        return bare.run_case(case)
    return tm.run_history(case)


def shrink(case):
    return bare.shrink(case) if "bare" in case else tm.shrink_history(case)
