#!/bin/sh
# Offline setup: nothing to fetch or build. Verifies the interpreter, the adapter and the import of
# the real genjax from /repo's working tree, and warms the XLA disk cache a little.
set -e
cd "$(dirname "$0")"
PYTHONHASHSEED=0 PYTHONPATH="$(pwd)" /venv/bin/python - <<'PY'
from sim import world
import jax, genjax
from genjax import gen, normal, seed
@gen
def m(x):
    return normal(x, 1.0) @ "a"
tr = seed(m.simulate)(jax.random.key(0), 1.0)
assert abs(float(tr.get_score()) + float(m.assess(tr.get_choices(), 1.0)[0])) < 1e-5
print("setup ok: jax", jax.__version__, "genjax from", genjax.__file__)
PY
