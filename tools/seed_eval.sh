#!/bin/sh
# usage: tools/seed_eval.sh <worktree e.g. /tmp/seed_C01> <label> <check-id> [more check ids]
# Restores the worktree to exactly HEAD + its seeded_change.diff (no git stash: the stash is shared by
# all worktrees), confirms the seeded change (41 baseline tests pass with it; demo fails with it,
# passes without), runs the given quick checks against the changed tree (VERIF_REPO=<worktree>) and
# stores everything under /verif/seeded/<label>/ (patch.diff, demo.py, NOTES.md, meta.json).
W=$1; L=$2; shift 2
OUT=/verif/seeded/$L; mkdir -p $OUT
cd $W || exit 2
[ -s seeded_change.diff ] || { echo "no seeded_change.diff in $W"; exit 2; }
# the scratch worktree follows /repo's current HEAD (fix: commits made after the worktree was created)
git checkout -q -- src && git checkout -q --detach "$(git -C /repo rev-parse HEAD)" && git apply seeded_change.diff || { echo "cannot apply seeded_change.diff"; exit 2; }
cp seeded_change.diff $OUT/patch.diff
cp demo.py $OUT/demo.py 2>/dev/null; cp NOTES.md $OUT/NOTES.md 2>/dev/null
PYTHONPATH=$W/src:/tmp/agent_env timeout 1200 /venv/bin/python demo.py > /tmp/seed_demo_with_$L.log 2>&1; DW=$?
git apply -R seeded_change.diff
PYTHONPATH=$W/src:/tmp/agent_env timeout 1200 /venv/bin/python demo.py > /tmp/seed_demo_without_$L.log 2>&1; DO=$?
git apply seeded_change.diff
PYTHONPATH=$W/src timeout 1500 /venv/bin/python -m pytest -q -p no:cacheprovider --no-cov -n 4 $(cat /tmp/agent_env/baseline_tests.txt | tr '\n' ' ') > /tmp/seed_tests_$L.log 2>&1; T=$?
TS=$(tail -1 /tmp/seed_tests_$L.log)
echo "demo with change exit=$DW, without exit=$DO; baseline tests exit=$T ($TS)"
RES=""
cd /verif
for id in "$@"; do
  rm -rf $OUT/replays/$id
  VERIF_REPO=$W VERIF_REPLAY_DIR=$OUT/replays VERIF_CACHE_DIR=/tmp/seed_cache_$L timeout 1500 ./check $id --tier quick --no-evidence > /tmp/seed_check_${L}_$id.log 2>&1; C=$?
  V=$(grep -E "class=" /tmp/seed_check_${L}_$id.log | head -3 | sed 's/ replay_verified=True//' | tr '\n' ';')
  echo "  check $id exit=$C $V"
  RES="$RES{\"check\":\"$id\",\"exit\":$C,\"violations\":\"$(echo $V | tr -d '"')\"},"
done
rm -rf /tmp/seed_cache_$L
cat > $OUT/meta.json <<EOM
{"label": "$L", "source": "independent sub-agent given only the property text and a scratch worktree",
 "demo_exit_with_change": $DW, "demo_exit_without_change": $DO, "baseline_tests_exit_with_change": $T, "baseline_tests_summary": "$TS",
 "checks_run": [${RES%,}],
 "how": "tools/seed_eval.sh: worktree restored to HEAD + patch; demo run with and without the change; 41 baseline tests with the change; quick checks with VERIF_REPO pointing at the changed worktree"}
EOM
