#!/venv/bin/python
"""Regenerates MANIFEST.json from props/meta.py (single source for tiers/claims)."""
import json, os, sys
sys.path.insert(0, os.path.dirname(os.path.dirname(os.path.abspath(__file__))))
from props import meta

CLAIMS = meta.CLAIMS
ALL = [json.loads(l)["id"] for l in open(os.path.join(os.path.dirname(os.path.dirname(os.path.abspath(__file__))), "properties.jsonl"))]
checks = []
for pid in sorted(CLAIMS):
    c = CLAIMS[pid]
    checks.append({
        "property_id": pid,
        "quick_cmd": f"./check {pid} --tier quick",
        "thorough_cmd": f"./check {pid} --tier thorough",
        "evidence_file": f"evidence/{pid}.json",
        "replay_cmd_template": f"./check {pid} --replay {{path}}",
        "engine": "genjax-dst",
        "level_claimed": {"category": meta.META[pid].get("LEVEL", "exploration"), "text": c["text"], "design_ref": c["ref"]},
        "level_note": c["note"],
        "technique": c["technique"],
    })
m = {
    "version": 1,
    "setup_cmd": "./setup.sh",
    "hooks": {
        "guard": "FEMTOMC_GENJAX_VERIF (unused: every seam is a module global or a public extension point, no source hook was needed)",
        "enable": "none needed; checks import genjax from /repo/src (VERIF_REPO overrides) after loading sim/jaxcompat.py, which patches JAX only",
        "baseline_off_cmd": "cd /repo && /venv/bin/python -m pytest -ra -q -p no:cacheprovider --timeout=900 --continue-on-collection-errors",
        "source_commits": [],
        "add_only": True,
    },
    "engines": [{"name": "genjax-dst", "path": "sim/", "serves_properties": sorted(CLAIMS),
                 "kind_free_text": "deterministic simulation: seeded scheduler over operation histories, randomness seam "
                                   "(REAL/TRACER/SCRIPTED regimes), fault injection on process-global state and model bodies, "
                                   "outcome-tree explorer, JSON replay files + reducer"}],
    "checks": checks,
    "not_applicable": meta.NOT_APPLICABLE + [
        {"property_id": p, "reason": "not claimed yet: its check is still under construction (see DESIGN.md 4 for the planned decision)"}
        for p in ALL if p not in CLAIMS and p not in {e["property_id"] for e in meta.NOT_APPLICABLE}],
    "notes": meta.NOTES,
}
json.dump(m, open(os.path.join(os.path.dirname(os.path.dirname(os.path.abspath(__file__))), "MANIFEST.json"), "w"), indent=1)
print("MANIFEST.json:", len(checks), "checks")
