#!/bin/sh
# Re-applies every stored seeded change (seeded/<label>/patch.diff) to a fresh scratch worktree of /repo
# and runs the quick check of the property it breaks; each must exit 1. Worktrees are removed afterwards.
# usage: tools/seed_regress.sh [labels...]     (SEED_REGRESS_JOBS=n limits the workers per check, SEED_REGRESS_TAG separates parallel invocations)
cd "$(dirname "$0")/.."
LABELS=${@:-$(ls seeded | grep -v INDEX.md)}
rc=0
for L in $LABELS; do
  P=$(/venv/bin/python -c "import json;print(json.load(open('seeded/$L/meta.json')).get('property','$L'[:3]))")
  W=/tmp/regress_$L
  TAG=${SEED_REGRESS_TAG:-0}
  git -C /repo worktree add -q $W HEAD && (git -C $W apply /verif/seeded/$L/patch.diff 2>/dev/null || git -C $W apply --3way /verif/seeded/$L/patch.diff) || { echo "$L: cannot apply"; rc=1; continue; }
  VERIF_REPO=$W VERIF_REPLAY_DIR=/tmp/regress_replays_$TAG VERIF_CACHE_DIR=/tmp/regress_cache_$TAG timeout 2400 ./check $P --tier quick --no-evidence ${SEED_REGRESS_JOBS:+--jobs $SEED_REGRESS_JOBS} > /tmp/regress_$L.log 2>&1; c=$?
  echo "$L -> $P exit=$c $(grep -E 'class=' /tmp/regress_$L.log | head -1 | sed 's/ replay_verified=True//')"
  [ $c -ne 1 ] && rc=1
  git -C /repo worktree remove --force $W
done
rm -rf /tmp/regress_replays_${SEED_REGRESS_TAG:-0} /tmp/regress_cache_${SEED_REGRESS_TAG:-0}
exit $rc
