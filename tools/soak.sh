#!/bin/sh
# usage: tools/soak.sh <tier> <verif-seed> [jobs] [ids...]   - every check once at the given tier/seed, no evidence written
cd "$(dirname "$0")/.."
TIER=${1:-thorough}; SEED=${2:-7}; JOBS=${3:-16}; shift 3 2>/dev/null
IDS=${@:-$(/venv/bin/python -c "import json;print(' '.join(c['property_id'] for c in json.load(open('MANIFEST.json'))['checks']))")}
mkdir -p soak_logs
for id in $IDS; do
  VERIF_REPLAY_DIR=$(pwd)/soak_logs/replays ./check $id --tier $TIER --seed $SEED --jobs $JOBS --no-evidence ${VERIF_SOAK_BUDGET:+--budget-s $VERIF_SOAK_BUDGET} > soak_logs/${id}_${TIER}_$SEED.log 2>&1; c=$?
  echo "$id tier=$TIER seed=$SEED exit=$c $(grep -E 'runs completed' soak_logs/${id}_${TIER}_$SEED.log | tail -1)"
  [ $c -ne 0 ] && grep -E "VIOLATION|class=|HARNESS|  " soak_logs/${id}_${TIER}_$SEED.log | head -8
done
