#!/bin/sh
# usage: tools/mutant.sh <check-id> <sed-expression> <file-relative-to-src/genjax> [extra check args]
# Applies a one-line mutation to a scratch copy of /repo (outside /repo and /verif), runs the quick check
# against it via VERIF_REPO, prints the exit status, removes the copy.
ID=$1; EXPR=$2; FILE=$3; shift 3
D=$(mktemp -d /tmp/mut.XXXXXX)
mkdir -p $D/src && cp -r /repo/src/genjax $D/src/ && find $D -name __pycache__ -prune -exec rm -rf {} + 
sed -i "$EXPR" $D/src/genjax/$FILE
if diff -q $D/src/genjax/$FILE /repo/src/genjax/$FILE >/dev/null; then echo "MUTANT DID NOT APPLY"; rm -rf $D; exit 3; fi
cd /verif && VERIF_REPO=$D VERIF_CACHE_DIR=$D/cache VERIF_REPLAY_DIR=$D/replays timeout 900 ./check $ID --no-evidence "$@" 2>&1 | grep -E "VIOLATION|class=|OK|HARNESS|completed" | head -8
rm -rf $D
