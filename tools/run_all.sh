#!/bin/sh
# Runs every claimed check's quick (or given) tier sequentially in /verif against /repo, writing evidence/.
# usage: tools/run_all.sh [quick|thorough] [ids...]
cd "$(dirname "$0")/.."
TIER=${1:-quick}; shift 2>/dev/null
IDS=${@:-$(/venv/bin/python -c "import json;print(' '.join(c['property_id'] for c in json.load(open('MANIFEST.json'))['checks']))")}
rc=0
for id in $IDS; do
  ./check $id --tier $TIER > /tmp/run_all_$id.log 2>&1; c=$?
  echo "$id exit=$c $(grep -E 'runs completed' /tmp/run_all_$id.log | tail -1)"
  [ $c -ne 0 ] && { rc=1; grep -E "VIOLATION|class=|HARNESS" /tmp/run_all_$id.log | head -5; }
done
exit $rc
