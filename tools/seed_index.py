#!/venv/bin/python
"""Builds seeded/INDEX.md from seeded/*/meta.json."""
import json, glob, os
root = os.path.join(os.path.dirname(os.path.dirname(os.path.abspath(__file__))), "seeded")
rows = []
needs = json.load(open(os.path.join(os.path.dirname(os.path.abspath(__file__)), "seed_needs.json")))
for f in sorted(glob.glob(os.path.join(root, "*", "meta.json"))):
    m = json.load(open(f))
    extra = needs.get(m["label"], {})
    if extra and (m.get("property") != extra.get("property") or m.get("needs") != extra.get("needs")):
        m.update({"property": extra["property"], "breaks_property": extra["property"], "needs": extra["needs"]})
        json.dump(m, open(f, "w"), indent=1)
    caught = [c["check"] for c in m["checks_run"] if c["exit"] == 1]
    missed = [c["check"] for c in m["checks_run"] if c["exit"] == 0]
    other = [f'{c["check"]}(exit {c["exit"]})' for c in m["checks_run"] if c["exit"] not in (0, 1)]
    first = ""
    for c in m["checks_run"]:
        if c["exit"] == 1:
            first = c["violations"].split(";")[0].strip()
            break
    rows.append((m["label"], m.get("property", m["label"][:3]), m["demo_exit_with_change"], m["demo_exit_without_change"],
                 m["baseline_tests_summary"], ", ".join(caught) or "-", ", ".join(missed + other) or "-", first, m.get("needs", "")))
with open(os.path.join(root, "INDEX.md"), "w") as out:
    out.write("# Independently written breaking changes (sub-agents: property text + scratch worktree only)\n\n")
    out.write("Each directory holds patch.diff, the author's demo.py and NOTES.md (what it needs to manifest), meta.json (what was run).\n"
              "Confirmed by tools/seed_eval.sh: 41 baseline tests pass with the change; the demo fails with it and passes without it;\n"
              "quick checks run with VERIF_REPO pointing at the changed worktree.\n\n")
    out.write("| change | breaks | demo with/without | baseline tests | caught by (quick) | ran clean | first violation |\n|---|---|---|---|---|---|---|\n")
    for r in rows:
        out.write(f"| {r[0]} | {r[1]} | {r[2]}/{r[3]} | {r[4]} | {r[5]} | {r[6]} | {r[7]} |\n")
print(len(rows), "seeds indexed")
