"""Harness self-tests (DESIGN 3.9): ./check SELFTEST [determinism|evaluator|all] [IDs...]

determinism: the same VERIF_SEED run twice - 4 workers / PYTHONHASHSEED=0 / disk cache on, and
7 workers / PYTHONHASHSEED=12345 / disk cache off - must give identical per-run fingerprints
(case distinctness key incl. operation history, steps, oracle evaluations, probes, fired faults,
violation classes) for every run index.
evaluator: the SCRIPTED evaluator must equal jax.jit on site-free programs with scan(reverse) /
cond / while / fori / custom_jvp, and must reproduce a REAL simulate when fed its own choices.
Writes evidence/selftest.json; exit 0 ok, 2 harness problem.
"""
import os
import sys
import json
import time
import subprocess

VERIF = os.path.dirname(os.path.dirname(os.path.abspath(__file__)))
FAST = ["C01", "C03", "C04", "C07", "C12", "C14", "C16", "C19", "C20"]


def determinism(ids, runs=14):
    out = {}
    ok = True
    for pid in ids:
        fps = []
        for jobs, hs, nocache in ((4, "0", "0"), (7, "12345", "1")):
            path = f"/tmp/selftest_{pid}_{hs}.json"
            env = dict(os.environ, PYTHONHASHSEED=hs, VERIF_NO_DISKCACHE=nocache)
            subprocess.run([os.path.join(VERIF, "check"), pid, "--runs", str(runs), "--jobs", str(jobs), "--no-evidence",
                            "--budget-s", "600", "--dump-results", path], env=env, cwd=VERIF, capture_output=True, text=True, timeout=3000)
            fps.append(json.load(open(path)) if os.path.exists(path) else {})
            if os.path.exists(path):
                os.remove(path)
        a, b = fps
        diff = [i for i in sorted(set(a) | set(b)) if a.get(i) != b.get(i)]
        out[pid] = {"runs_compared": len(set(a) & set(b)), "diverging_runs": diff[:5]}
        print(f"[selftest] determinism {pid}: {len(set(a) & set(b))} runs compared, {len(diff)} diverge", flush=True)
        if diff or not a:
            ok = False
            for i in diff[:2]:
                print("   run", i, json.dumps(a.get(i))[:400], "\n      vs", json.dumps(b.get(i))[:400])
    return ok, out


def evaluator():
    sys.path.insert(0, VERIF)
    from sim import world, scripted, progs, gfi, ref
    import random
    import numpy as np
    import jax
    from genjax import pjax as gpjax

    fails = scripted.selfcheck()
    n = 0
    rng = random.Random(7)
    for i in range(12):
        m = progs.gen_model(rng, depth=rng.choice([0, 1, 2]))
        gf = progs.build(m)
        tr = gpjax.seed(gf.simulate)(jax.random.key(i), 0.3)
        ch = gfi.np_choices(tr)
        r = ref.run(m, 0.3, ch)
        if r.hidden_lanes:
            continue  # hidden Cond draws cannot be read back from the visible choices
        # feed the REAL run's own values back through the SCRIPTED evaluator
        sites = [s for s in r.sites]

        def script(site, _state={"used": set()}):
            tmp = dict(site)
            tmp["value"] = np.zeros(site["shape"], dtype=np.dtype(site["dtype"]))
            vals = []
            for rc in ref.split_lanes(tmp):
                ps = gfi._order_params(gfi.NAME2REF[rc["name"]], rc)
                hit = None
                for j, s in enumerate(sites):
                    d = "normal" if s["d"] == "normal_s" else s["d"]
                    if j in _state["used"] or d != gfi.NAME2REF[rc["name"]]:
                        continue
                    if all(world.close(p, q, 2e-4, 2e-5) for p, q in zip(s["params"], ps)):
                        hit = j
                        break
                if hit is None:
                    raise RuntimeError("no reference site for " + str(site["name"]))
                _state["used"].add(hit)
                vals.append(np.asarray(sites[hit]["value"]))
            return np.stack(vals).reshape(tuple(site["shape"]))

        try:
            tr2, log = scripted.run_scripted(gf.simulate, script, 0.3)
            ok, _ = world.tree_close(tr.get_choices(), tr2.get_choices())
            if not ok or not world.close(float(tr.get_score()), float(tr2.get_score()), 1e-4, 1e-4):
                fails.append(("cross-regime", progs.shape_key(m)))
            n += 1
        except RuntimeError:
            pass  # ambiguous parameter match (equal-parameter sites): not a failure of the evaluator
    print(f"[selftest] evaluator: {len(fails)} failures, {n} cross-regime replays", flush=True)
    return not fails, {"failures": [str(f)[:200] for f in fails], "cross_regime_replays": n}


def main(argv):
    what = argv[0] if argv else "all"
    ids = argv[1:] or FAST
    t0 = time.time()
    res = {"what": what}
    ok = True
    if what in ("evaluator", "all"):
        o, r = evaluator()
        ok &= o
        res["evaluator"] = r
    if what in ("determinism", "all"):
        o, r = determinism(ids)
        ok &= o
        res["determinism"] = r
    res["wall_s"] = round(time.time() - t0, 1)
    res["ok"] = bool(ok)
    os.makedirs(os.path.join(VERIF, "evidence"), exist_ok=True)
    json.dump(res, open(os.path.join(VERIF, "evidence", "selftest.json"), "w"), indent=1)
    print("[selftest]", "OK" if ok else "FAILED")
    return 0 if ok else 2
