"""Outcome-tree explorer (DESIGN 3.7): exact expectations without sampling error.

Replays an operation under scripts in depth-first order, discovering sites lazily. The support
and probability vector of each site are computed by the reference *from the parameter values the
implementation actually passed to that site*. Each leaf yields (result, P(script)). The explorer
is budgeted; an instance whose tree fits is complete (sum of P == 1 is asserted by the caller).
"""

import itertools
import numpy as np

from . import ref
from .gfi import NAME2REF, _order_params


class TreeBudget(Exception):
    pass


def discrete_outcomes(site, max_joint=64):
    """All joint outcomes of a (possibly vectorised) discrete site with their probabilities."""
    name = (site["name"] or "").lower().replace("_", "")
    rname = NAME2REF.get(name)
    tmp = dict(site)
    tmp["value"] = np.zeros(site["shape"], dtype=np.dtype(site["dtype"]))
    recs = ref.split_lanes(tmp)
    per_lane = []
    for rc in recs:
        ps = _order_params(rname, rc)
        sup = ref.support(rname, *ps)
        pr = [float(np.exp(ref.logpdf(rname, v, *ps))) for v in sup]
        per_lane.append((sup, pr))
    n = 1
    for sup, _ in per_lane:
        n *= len(sup)
    if n > max_joint:
        raise TreeBudget(f"site with {n} joint outcomes")
    vals, probs = [], []
    for combo in itertools.product(*[range(len(s)) for s, _ in per_lane]):
        v = np.asarray([per_lane[i][0][j] for i, j in enumerate(combo)]).reshape(tuple(site["shape"]))
        p = 1.0
        for i, j in enumerate(combo):
            p *= per_lane[i][1][j]
        if p <= 0.0:
            continue  # impossible outcomes are not part of the tree
        vals.append(v.astype(np.dtype(site["dtype"])))
        probs.append(p)
    return vals, probs


def explore(run, outcomes=discrete_outcomes, max_leaves=4096):
    """run(script) -> result. Yields (result, P, path) for every leaf. Raises TreeBudget when the
    tree does not fit (the caller then falls back to sampled scripts)."""
    trail = []  # [n_options, chosen, probs]
    leaves = 0
    while True:
        pos = [0]

        def script(site):
            vals, probs = outcomes(site)
            i = pos[0]
            if i < len(trail):
                if trail[i][0] != len(vals):
                    raise RuntimeError("non-deterministic site structure during tree exploration")
                idx = trail[i][1]
                trail[i][2] = probs
            else:
                trail.append([len(vals), 0, probs])
                idx = 0
            pos[0] += 1
            return vals[idx]

        result = run(script)
        n = pos[0]
        del trail[n:]
        P = 1.0
        for t in trail:
            P *= t[2][t[1]]
        yield result, P, [t[1] for t in trail]
        leaves += 1
        while trail and trail[-1][1] + 1 >= trail[-1][0]:
            trail.pop()
        if not trail:
            return
        if leaves >= max_leaves:
            raise TreeBudget(f"more than {max_leaves} leaves")
        trail[-1][1] += 1
