"""Seeded search driver shared by every check (DESIGN.md sections 3.8, 3.9, 7).

One integer (VERIF_SEED) decides everything: run i of check P at tier T uses
run_seed = sha256(VERIF_SEED, P, T, i); `gen_case(Random(run_seed), tier)` builds a
JSON-able *case* (programs, operation history, scripts, fault plan) and
`run_case(case)` executes it against the real genjax and returns what it saw.
The case is the replay file.

A property module (props/cNN.py) provides:
    PROP            "C06"
    TIERS           {"quick": {"runs": n, "budget_s": s, "run_timeout_s": t}, "thorough": {...}}
    gen_case(rng, tier) -> dict
    run_case(case) -> dict with keys
        violations  list of {"class","clause","message","sig":{...}}
        steps       int (logical steps executed)
        faults      {kind: fired_count}
        probes      {name: count}
        key         hashable-as-string distinctness key of the case
        nontrivial  bool
        evals       int (oracle evaluations)
        extra       optional dict of summable ints / flags
    shrink(case) -> iterator of strictly smaller candidate cases   (optional)
    RULE, COMPONENTS, ASSUMPTIONS, REQUIRED_PROBES (optional)
"""

import os
import sys
import json
import time
import copy
import hashlib
import random
import signal
import importlib
import traceback
import subprocess
import multiprocessing as mp
from multiprocessing.connection import wait as mp_wait

VERIF = os.path.dirname(os.path.dirname(os.path.abspath(__file__)))
DEFAULT_SEED = 20260923


def run_seed(seed, prop, tier, i):
    h = hashlib.sha256(f"{seed}:{prop}:{tier}:{i}".encode()).hexdigest()
    return int(h[:12], 16)


# ------------------------------------------------------------------ known findings


def load_known():
    p = os.path.join(VERIF, "known_findings.json")
    if not os.path.exists(p):
        return []
    return json.load(open(p))


def match_known(prop, viol, known):
    """An open entry matches iff every field of its signature equals the violation's."""
    sig = dict(viol.get("sig") or {})
    sig.setdefault("class", viol.get("class"))
    sig.setdefault("clause", viol.get("clause"))
    for e in known:
        if e.get("property") != prop or e.get("status") != "open":
            continue
        want = e.get("signature") or {}
        if want and all(sig.get(k) == v for k, v in want.items()):
            return e
    return None


# ------------------------------------------------------------------ worker side


def _load_prop(prop):
    return importlib.import_module("props." + prop.lower())


def _exec_case(mod, case):
    """Run one case with harness exceptions classified apart from violations."""
    from sim import world

    world.reset()
    t0 = time.time()
    try:
        res = mod.run_case(case)
    except Exception as e:  # harness bug (oracles catch genjax exceptions themselves)
        return {
            "harness_error": "".join(traceback.format_exception(type(e), e, e.__traceback__))[-4000:]
        }
    res.setdefault("violations", [])
    res.setdefault("steps", 0)
    res.setdefault("faults", {})
    res.setdefault("probes", {})
    res.setdefault("key", "")
    res.setdefault("nontrivial", True)
    res.setdefault("evals", 1)
    res["wall"] = time.time() - t0
    return res


def _worker_main(prop, conn, tier, slot=0):
    import faulthandler

    faulthandler.enable()
    # One core per world: XLA/LLVM thread pools are sized from the affinity mask, and 16 unpinned
    # worlds with ~25 threads each spend half their time in the kernel (measured: sys 50%).
    try:
        cpus = sorted(os.sched_getaffinity(0))
        os.sched_setaffinity(0, {cpus[slot % len(cpus)]})
    except Exception:
        pass
    try:
        mod = _load_prop(prop)
    except Exception as e:
        conn.send(("fatal", "".join(traceback.format_exception(type(e), e, e.__traceback__))))
        return
    conn.send(("ready", None))
    known = load_known()
    prior = []  # cases this world already executed (process-global state can carry over between runs)
    while True:
        try:
            msg = conn.recv()
        except EOFError:
            return
        if msg is None:
            return
        kind, payload = msg
        if kind == "run":
            idx, rseed = payload
            try:
                case = mod.gen_case(random.Random(rseed), tier)
            except Exception as e:
                conn.send(("result", idx, {"harness_error": "gen_case: " + "".join(
                    traceback.format_exception(type(e), e, e.__traceback__))[-4000:]}))
                continue
            case["seed"] = rseed
            res = _exec_case(mod, case)
            out = {k: res.get(k) for k in ("steps", "faults", "probes", "key", "nontrivial",
                                            "evals", "wall", "harness_error", "extra")}
            out["idx"] = idx
            out["seed"] = rseed
            viols = res.get("violations") or []
            out["violations"] = viols
            if viols or idx < 3:
                out["case"] = case
            if viols:
                out["prior_cases"] = prior[-40:]
            prior.append(case)
            retire = bool(viols) or bool(res.get("harness_error"))
            conn.send(("result", idx, out))
            if retire:
                return  # a process that saw a violation is never reused
        elif kind == "minimise":
            case, target, budget = payload
            small, tried = minimise(mod, case, target, known, budget)
            conn.send(("minimised", small, tried))
            return


def _same_violation(prop, res, target, known):
    """Same violation class at the same oracle clause; for exceptions also the same exception type
    and innermost genjax frame (so that minimisation cannot drift into a different failure)."""
    tsig = target.get("sig") or {}
    for v in res.get("violations") or []:
        if v.get("class") == target["class"] and v.get("clause") == target["clause"]:
            vsig = v.get("sig") or {}
            if any(tsig.get(k) is not None and vsig.get(k) != tsig.get(k) for k in ("exception", "frame")):
                continue
            if match_known(prop, v, known) is None:
                return v
    return None


def minimise(mod, case, target, known, budget_s):
    """Greedy reducer: accept a candidate only if the same (class, clause) persists."""
    t0 = time.time()
    best = case
    tried = 0
    if not hasattr(mod, "shrink"):
        return best, tried
    improved = True
    while improved and time.time() - t0 < budget_s:
        improved = False
        for cand in mod.shrink(best):
            if time.time() - t0 > budget_s:
                break
            tried += 1
            res = _exec_case(mod, copy.deepcopy(cand))
            if res.get("harness_error"):
                continue
            if _same_violation(mod.PROP, res, target, known):
                cand["seed"] = case.get("seed")
                best = cand
                improved = True
                break
    return best, tried


# ------------------------------------------------------------------ parent side


class _Worker:
    _n = 0

    def __init__(self, ctx, prop, tier):
        self.parent, child = ctx.Pipe()
        slot = _Worker._n
        _Worker._n += 1
        self.proc = ctx.Process(target=_worker_main, args=(prop, child, tier, slot), daemon=True)
        self.proc.start()
        child.close()
        self.busy = None  # (idx, t_start)
        self.ready = False

    def kill(self):
        try:
            self.proc.kill()
        except Exception:
            pass
        try:
            self.parent.close()
        except Exception:
            pass


def _write_json(path, obj):
    os.makedirs(os.path.dirname(path), exist_ok=True)
    tmp = path + ".tmp"
    with open(tmp, "w") as f:
        json.dump(obj, f, indent=1, sort_keys=True, default=str)
    os.replace(tmp, path)


def explore(prop, tier, seed, jobs, runs, budget_s, run_timeout_s, log=print):
    """Run `runs` seeded cases on `jobs` spawned workers; returns aggregate dict."""
    ctx = mp.get_context("spawn")
    t0 = time.time()
    workers = [_Worker(ctx, prop, tier) for _ in range(jobs)]
    next_idx = 0
    results = {}
    harness_errors = []
    timeouts = []
    spawn_failures = 0
    stop_issuing = False
    while True:
        now = time.time()
        if now - t0 > budget_s:
            stop_issuing = True
        # issue work
        for w in workers:
            if w.ready and w.busy is None and not stop_issuing and next_idx < runs:
                try:
                    w.parent.send(("run", (next_idx, run_seed(seed, prop, tier, next_idx))))
                    w.busy = (next_idx, time.time())
                    next_idx += 1
                except Exception:
                    w.ready = False
        active = [w for w in workers if w.busy is not None or not w.ready]
        if not active and (stop_issuing or next_idx >= runs):
            break
        conns = [w.parent for w in workers if (w.busy is not None or not w.ready)]
        if not conns:
            break
        ready = mp_wait(conns, timeout=1.0)
        for w in list(workers):
            if w.parent in ready:
                try:
                    msg = w.parent.recv()
                except (EOFError, OSError):
                    msg = ("dead", None)
                if msg[0] == "ready":
                    w.ready = True
                elif msg[0] == "fatal":
                    harness_errors.append({"idx": None, "error": msg[1]})
                    w.kill()
                    workers.remove(w)
                    spawn_failures += 1
                    if spawn_failures > 3:
                        stop_issuing = True
                        next_idx = runs
                elif msg[0] == "result":
                    _, idx, out = msg
                    results[idx] = out
                    w.busy = None
                    if out.get("harness_error"):
                        harness_errors.append({"idx": idx, "seed": out.get("seed"),
                                               "error": out["harness_error"]})
                    if out.get("violations") or out.get("harness_error"):
                        w.kill()
                        workers.remove(w)
                        if not stop_issuing and next_idx < runs:
                            workers.append(_Worker(ctx, prop, tier))
                elif msg[0] == "dead":
                    if w.busy is not None:
                        idx = w.busy[0]
                        harness_errors.append({"idx": idx, "seed": run_seed(seed, prop, tier, idx),
                                               "error": "worker died (exit %s)" % w.proc.exitcode})
                    w.kill()
                    workers.remove(w)
                    if not stop_issuing and next_idx < runs:
                        workers.append(_Worker(ctx, prop, tier))
        # watchdog
        now = time.time()
        for w in list(workers):
            if w.busy is not None and now - w.busy[1] > run_timeout_s:
                idx = w.busy[0]
                try:
                    os.kill(w.proc.pid, signal.SIGABRT)  # faulthandler dumps the stack
                except Exception:
                    pass
                time.sleep(0.2)
                timeouts.append({"idx": idx, "seed": run_seed(seed, prop, tier, idx)})
                w.kill()
                workers.remove(w)
                if not stop_issuing and next_idx < runs:
                    workers.append(_Worker(ctx, prop, tier))
            elif not w.ready and w.busy is None and now - t0 > 180 and not w.proc.is_alive():
                workers.remove(w)
        if not workers and (next_idx < runs and not stop_issuing):
            harness_errors.append({"idx": None, "error": "no workers left"})
            break
    for w in workers:
        try:
            w.parent.send(None)
        except Exception:
            pass
    for w in workers:
        w.proc.join(timeout=2)
        w.kill()
    return {
        "results": results,
        "harness_errors": harness_errors,
        "timeouts": timeouts,
        "issued": next_idx,
        "wall": time.time() - t0,
    }


def _minimise_in_fresh_worker(prop, tier, case, target, budget_s):
    ctx = mp.get_context("spawn")
    w = _Worker(ctx, prop, tier)
    try:
        t0 = time.time()
        while time.time() - t0 < 120:
            if w.parent.poll(1.0):
                msg = w.parent.recv()
                if msg[0] == "ready":
                    break
                if msg[0] == "fatal":
                    return case, 0
        w.parent.send(("minimise", (case, target, budget_s)))
        t0 = time.time()
        while time.time() - t0 < budget_s + 120:
            if w.parent.poll(1.0):
                try:
                    msg = w.parent.recv()
                except (EOFError, OSError):
                    return case, 0
                if msg[0] == "minimised":
                    return msg[1], msg[2]
        return case, 0
    finally:
        w.kill()


def _case_size(case):
    return len(json.dumps(case, default=str))


def main(prop, argv=None):
    import argparse

    mod_tiers = None
    ap = argparse.ArgumentParser(prog="check " + prop)
    ap.add_argument("--tier", default=os.environ.get("VERIF_TIER", "quick"), choices=["quick", "thorough"])
    ap.add_argument("--seed", type=int, default=int(os.environ.get("VERIF_SEED", DEFAULT_SEED)))
    ap.add_argument("--jobs", type=int, default=int(os.environ.get("VERIF_JOBS", "16")))
    ap.add_argument("--runs", type=int, default=None)
    ap.add_argument("--budget-s", type=float, default=None)
    ap.add_argument("--replay", default=None)
    ap.add_argument("--no-evidence", action="store_true")
    ap.add_argument("--evidence-dir", default=os.path.join(VERIF, "evidence"))
    ap.add_argument("--dump-case", type=int, default=None, help="print the case of run index i and exit")
    ap.add_argument("--dump-results", default=None, help="write per-run fingerprints (determinism self-test)")
    args = ap.parse_args(argv)

    if args.replay:
        return replay(prop, args.replay)

    # The parent never imports jax/genjax: only the static tier table is read.
    tiers = _static_tiers(prop)
    cfg = tiers[args.tier]
    runs = args.runs if args.runs is not None else cfg["runs"]
    budget_s = args.budget_s if args.budget_s is not None else cfg["budget_s"]
    run_timeout_s = cfg.get("run_timeout_s", 300)

    if args.dump_case is not None:
        mod = _load_prop(prop)
        case = mod.gen_case(random.Random(run_seed(args.seed, prop, args.tier, args.dump_case)), args.tier)
        print(json.dumps(case, indent=1, default=str))
        return 0

    print(f"[{prop}] tier={args.tier} VERIF_SEED={args.seed} runs={runs} budget_s={budget_s} jobs={args.jobs}",
          flush=True)
    t0 = time.time()
    agg = explore(prop, args.tier, args.seed, args.jobs, runs, budget_s, run_timeout_s)
    results = agg["results"]
    known = load_known()
    if args.dump_results:
        fp = {str(i): {"seed": r.get("seed"), "key": r.get("key"), "steps": r.get("steps"), "evals": r.get("evals"),
                       "probes": r.get("probes"), "faults": r.get("faults"),
                       "violations": [[v.get("class"), v.get("clause")] for v in (r.get("violations") or [])],
                       "harness_error": bool(r.get("harness_error"))}
              for i, r in sorted(results.items())}
        _write_json(args.dump_results, fp)

    # ---- classify
    new_viols = []  # (idx, viol, case)
    kf_hits = {}
    for idx in sorted(results):
        r = results[idx]
        for v in r.get("violations") or []:
            e = match_known(prop, v, known)
            if e is not None:
                kf_hits.setdefault(e["id"], {"entry": e, "count": 0, "first_idx": idx})
                kf_hits[e["id"]]["count"] += 1
            else:
                new_viols.append((idx, v, r.get("case")))

    for kid, h in sorted(kf_hits.items()):
        print(f"KNOWN-FINDING: property={prop} {kid} {h['entry']['what']} (hit {h['count']}x)", flush=True)

    # ---- minimise + replay files for new violations (distinct by class/clause, at most 3)
    reported = []
    seen = set()
    for idx, v, case in new_viols:
        k = (v.get("class"), v.get("clause"))
        if k in seen or case is None:
            continue
        seen.add(k)
        if len(seen) > 3:
            break
        mbudget = 90 if args.tier == "quick" else 300
        small, tried = _minimise_in_fresh_worker(prop, args.tier, case,
                                                 {"class": k[0], "clause": k[1], "sig": v.get("sig")}, mbudget)
        rdir = os.path.join(os.environ.get("VERIF_REPLAY_DIR") or os.path.join(VERIF, "replays"), prop)
        path = os.path.join(rdir, f"{results[idx]['seed']}-{len(reported)}.json")
        rep = {
            "property": prop,
            "violation": {kk: v.get(kk) for kk in ("class", "clause", "message", "sig")},
            "seed": results[idx]["seed"],
            "verif_seed": args.seed,
            "tier": args.tier,
            "run_index": idx,
            "world": {"x64": os.environ.get("VERIF_X64") == "1",
                      "hashseed": os.environ.get("PYTHONHASHSEED")},
            "case": small,
            "minimised_from": {"bytes": _case_size(case), "to_bytes": _case_size(small), "candidates_tried": tried},
        }
        _write_json(path, rep)
        # the replay must reproduce in a fresh interpreter
        ok = _verify_replay(prop, path, k)
        if not ok and small is not case:
            rep["case"] = case
            rep["minimised_from"]["note"] = "minimised case did not replay; original case kept"
            _write_json(path, rep)
            ok = _verify_replay(prop, path, k)
        if not ok and results[idx].get("prior_cases"):
            # the violation may need state left behind by earlier runs of the same world: replay those first
            rep["case"] = case
            rep["prior_cases"] = results[idx]["prior_cases"]
            rep["minimised_from"]["note"] = "needs the prior cases of its world (process-global state across runs); not minimised"
            _write_json(path, rep)
            ok = _verify_replay(prop, path, k)
        rep["replay_verified"] = ok
        _write_json(path, rep)
        reported.append((path, v, ok))

    # ---- evidence
    wall = time.time() - t0
    mod_meta = _static_meta(prop)
    ev = build_evidence(prop, args.tier, args.seed, agg, results, kf_hits, new_viols, wall, mod_meta, cfg)
    harness_bad = bool(agg["harness_errors"] or agg["timeouts"])
    if not args.no_evidence:
        _write_json(os.path.join(args.evidence_dir, f"{prop}.json"), ev)

    done = len(results)
    print(f"[{prop}] runs completed={done}/{runs} wall={wall:.1f}s steps={ev['coverage'].get('steps')} "
          f"faults={ev['coverage'].get('faults_fired')} distinct_nontrivial={ev['coverage']['distinct_nontrivial']}",
          flush=True)

    if reported:
        for path, v, ok in reported:
            print(f"VIOLATION property={prop} replay={path}", flush=True)
            print(f"  class={v.get('class')} clause={v.get('clause')} replay_verified={ok}\n  {str(v.get('message'))[:600]}",
                  flush=True)
        return 1
    if new_viols:
        # violations whose case could not be captured: still a violation
        idx, v, _ = new_viols[0]
        path = os.path.join(os.environ.get("VERIF_REPLAY_DIR") or os.path.join(VERIF, "replays"), prop,
                            f"seed-{results[idx]['seed']}.json")
        _write_json(path, {"property": prop, "seed": results[idx]["seed"], "violation": v})
        print(f"VIOLATION property={prop} replay={path}", flush=True)
        return 1
    if harness_bad:
        for h in agg["harness_errors"][:3]:
            print(f"HARNESS-ERROR run={h.get('idx')} seed={h.get('seed')}\n{h.get('error')}", flush=True)
        for h in agg["timeouts"][:3]:
            print(f"HARNESS-ERROR timeout run={h.get('idx')} seed={h.get('seed')}", flush=True)
        return 2
    missing = [p for p in mod_meta.get("REQUIRED_PROBES", {}).get(args.tier, [])
               if not ev["coverage"]["probes"].get(p)]
    if missing and done >= runs:
        print(f"HARNESS-ERROR probes stuck at zero: {missing}", flush=True)
        return 2
    if done == 0:
        print("HARNESS-ERROR no run completed", flush=True)
        return 2
    print(f"[{prop}] OK", flush=True)
    return 0


def _verify_replay(prop, path, k):
    try:
        p = subprocess.run([sys.executable, os.path.join(VERIF, "check"), prop, "--replay", path],
                           capture_output=True, text=True, timeout=900, cwd=VERIF)
    except subprocess.TimeoutExpired:
        return False
    return p.returncode == 1 and f"class={k[0]} clause={k[1]}" in p.stdout


def replay(prop, path):
    rep = json.load(open(path))
    case = rep.get("case", rep)
    mod = _load_prop(prop)
    for pc in rep.get("prior_cases") or []:
        _exec_case(mod, pc)  # rebuild the world's history; only the last case is judged
    res = _exec_case(mod, case)
    if res.get("harness_error"):
        print("HARNESS-ERROR during replay\n" + res["harness_error"])
        return 2
    known = load_known()
    bad = 0
    for v in res.get("violations") or []:
        e = match_known(prop, v, known)
        if e is not None:
            print(f"KNOWN-FINDING: property={prop} {e['id']} {e['what']}")
            continue
        bad += 1
        print(f"VIOLATION property={prop} replay={path}")
        print(f"  class={v.get('class')} clause={v.get('clause')}\n  {str(v.get('message'))[:1500]}")
    if not bad:
        print(f"[{prop}] replay: no violation")
    return 1 if bad else 0


# ------------------------------------------------------------------ static metadata (no jax import in the parent)


def _static_tiers(prop):
    from props import meta

    return meta.TIERS[prop]


def _static_meta(prop):
    from props import meta

    return meta.META.get(prop, {})


def build_evidence(prop, tier, seed, agg, results, kf_hits, new_viols, wall, meta, cfg):
    steps = 0
    evals = 0
    faults = {}
    probes = {}
    extra = {}
    keys_nt = set()
    keys_all = set()
    samples = []
    for idx in sorted(results):
        r = results[idx]
        if r.get("harness_error"):
            continue
        steps += int(r.get("steps") or 0)
        evals += int(r.get("evals") or 0)
        for k, v in (r.get("faults") or {}).items():
            faults[k] = faults.get(k, 0) + int(v)
        for k, v in (r.get("probes") or {}).items():
            probes[k] = probes.get(k, 0) + int(v)
        for k, v in (r.get("extra") or {}).items():
            if isinstance(v, bool):
                extra[k] = extra.get(k, 0) + int(v)
            elif isinstance(v, (int, float)):
                extra[k] = extra.get(k, 0) + v
        keys_all.add(r.get("key"))
        if r.get("nontrivial"):
            keys_nt.add(r.get("key"))
        if r.get("case") is not None and len(samples) < 3:
            samples.append(_trim(r["case"]))
    n = len([r for r in results.values() if not r.get("harness_error")])
    cov = {
        # cases generated and executed (deterministic for a given VERIF_SEED and tier); the number of
        # oracle evaluations inside them (operations checked, outcome-tree leaves) is reported separately
        "evaluations": n,
        "oracle_evaluations": max(evals, 0),
        "distinct_nontrivial": len(keys_nt),
        "rule": meta.get("RULE", ""),
        "samples": samples or [{"note": "no case captured"}],
        "runs": n,
        "runs_requested": cfg["runs"],
        "runs_per_hour": round(n / max(wall, 1e-9) * 3600),
        "steps": steps,
        "simulated_time": {"unit": "logical steps (the library has no clock)", "steps": steps},
        "distinct_cases": len(keys_all),
        "faults_fired": faults,
        "probes": probes,
        "components": meta.get("COMPONENTS", {}),
        "known_findings_hit": {k: v["count"] for k, v in kf_hits.items()},
        "harness_errors": len(agg["harness_errors"]),
        "timeouts": len(agg["timeouts"]),
        "seeds": {"verif_seed": seed, "derivation": "sha256(VERIF_SEED:prop:tier:i)[:12]",
                  "first": [results[i]["seed"] for i in sorted(results)[:3]]},
        "exhaustive": False,
    }
    cov.update({k: v for k, v in extra.items()})
    if extra.get("trees_complete"):
        cov["exhaustive_instances"] = extra.get("trees_complete")
    return {
        "property_id": prop,
        "tier": tier,
        "seed": int(seed),
        "level": meta.get("LEVEL", "exploration"),
        "coverage": cov,
        "assumptions": meta.get("ASSUMPTIONS", []),
        "wall_s": round(wall, 2),
        "violations": len(new_viols),
    }


def _trim(case, limit=6000):
    s = json.dumps(case, default=str)
    if len(s) <= limit:
        return case
    return {"truncated_json": s[:limit]}
