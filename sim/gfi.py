"""Shared machinery of the GFI checks (C01-C05, C09, C16): execution configurations, the
trace-coherence oracle against PPL-ref, the SCRIPTED site script driven by the reference sampler,
and the multiset matching of consulted sites against the reference's site list."""

from . import world  # first: puts $VERIF_REPO/src in front and loads the JAX adapter before genjax

import math
import numpy as np
import jax
import jax.numpy as jnp
import jax.tree_util as jtu

from genjax import pjax as gpjax

from . import world, ref, progs
from .scripted import run_scripted

TOL = dict(rtol=3e-4, atol=3e-4)

NAME2REF = {
    "normal": "normal", "uniform": "uniform", "exponential": "exponential", "gamma": "gamma",
    "beta": "beta", "laplace": "laplace", "flip": "flip", "bernoulli": "bernoulli",
    "categorical": "categorical", "poisson": "poisson", "multivariatenormal": "mvn",
    "dirichlet": "dirichlet", "geometric": "geometric",
}


def to_jnp(t):
    if isinstance(t, dict):
        return {k: to_jnp(v) for k, v in t.items()}
    return jnp.asarray(t)


def np_choices(trace_or_choices):
    ch = trace_or_choices.get_choices() if hasattr(trace_or_choices, "get_choices") else trace_or_choices
    return ref.to_np(jtu.tree_map(lambda x: np.asarray(x), ch))


# ------------------------------------------------------------------ execution configurations


def execute(cfg, fn, key_int, *args):
    """Run a sampling operation `fn(*args)` under a configuration of the REAL regime."""
    key = jax.random.key(key_int)
    if cfg == "eager":
        return gpjax.seed(fn)(key, *args)
    if cfg == "jit":
        return jax.jit(gpjax.seed(fn))(key, *args)
    if cfg in ("vmap", "jitvmap"):
        ks = jnp.stack([jax.random.key(key_int + 7919), key, jax.random.key(key_int + 104729)])
        f = jax.vmap(gpjax.seed(fn), in_axes=(0,) + (None,) * len(args))
        if cfg == "jitvmap":
            f = jax.jit(f)
        out = f(ks, *args)
        return jtu.tree_map(lambda x: x[1], out)
    raise ValueError(cfg)


def execute_det(cfg, fn, *args):
    """Deterministic operations (assess, update): eager or jit."""
    if cfg == "jit":
        return jax.jit(fn)(*args)
    return fn(*args)


# ------------------------------------------------------------------ oracles


def coherence(trace, model, h, what="trace", kind="top", x=None):
    """score == -ref.logp(choices; args) and retval == ref.retval(choices). Returns violations."""
    out = []
    try:
        ch = np_choices(trace)
        r = ref.run(model, h, ch, kind=kind, x=x)
    except KeyError as e:
        return [dict(cls="incoherent", clause="choices_complete",
                     message=f"{what}: choice map lacks address {e}")], None
    score = float(trace.get_score())
    if not world.close(-score, r.logp, **TOL):
        out.append(dict(cls="incoherent", clause="score_is_minus_logp",
                        message=f"{what}: score={score!r} but -ref.logp={-r.logp!r}"))
    rv = trace.get_retval()
    want = r.retval
    if not all(world.close(a, b, **TOL) for a, b in zip(jtu.tree_leaves(rv), jtu.tree_leaves(want))):
        out.append(dict(cls="incoherent", clause="retval_is_program_value",
                        message=f"{what}: retval={world.to_py(rv)} but ref retval={world.to_py(want)}"))
    return out, r


_LOCSCALE = {"normal": "n", "normal_s": "n", "laplace": "l", "uniform": "u", "exponential": "e"}


def shared_noise_pairs(sites, tol=2e-5):
    """Pairs of site lanes of one execution whose draws carry the same underlying noise: equal
    standardised residuals for location-scale families (a sampler that is `loc + scale * noise(key)`
    returns the same noise for the same key), equal values for equal parameters otherwise. A single
    coincidence has probability ~1e-5 per pair, so callers confirm a suspect pair under fresh keys
    before reporting. Returns a set of ((path, idx), (path, idx))."""
    groups = {}
    for s in sites:
        if not s.get("live", True):
            continue
        v = np.asarray(s["value"], dtype=np.float64)
        if v.ndim != 0 or progs.DISTS[s["d"]]["kind"] != "c":
            continue
        p = [np.asarray(q, dtype=np.float64) for q in s["params"]]
        fam = _LOCSCALE.get(s["d"])
        if fam in ("n", "l"):
            z = (v - p[0]) / p[1]
        elif fam == "u":
            z = (v - p[0]) / (p[1] - p[0])
        elif fam == "e":
            z = v * p[0]
        else:
            fam, z = (s["d"],) + tuple(float(q) for q in np.concatenate([np.ravel(q) for q in p])), v
        groups.setdefault(fam, []).append(((tuple(s["path"]), tuple(s["idx"])), float(z)))
    out = set()
    for members in groups.values():
        members.sort(key=lambda m: m[1])
        for (a, za), (b, zb) in zip(members, members[1:]):
            if abs(za - zb) <= tol * max(1.0, abs(za)):
                out.add((a, b) if a < b else (b, a))
    return out


def V(cls, clause, message, **sig):
    return {"class": cls, "clause": clause, "message": message, "sig": sig}


def convert(vs, **sig):
    return [V(v["cls"], v["clause"], v["message"], **sig) for v in vs]


def exc_violation(e, op, clause="defined", **sig):
    return V("undefined", clause, f"{op} raised {type(e).__name__}: {str(e)[:400]}",
             op=op, exception=type(e).__name__, frame=world.innermost_genjax_frame(e), **sig)


# ------------------------------------------------------------------ SCRIPTED regime helpers


class RefScript:
    """Answers every site from the reference sampler, lane by lane, using the parameters the
    implementation actually passed to that site. Records (name, params, value) per lane."""

    def __init__(self, seed, forced=None):
        self.rng = np.random.default_rng(seed)
        self.lanes = []
        self.sites = []  # (reference dist name, raw site record with the value) for re-alignment
        self.visits = 0
        self.forced = forced  # optional callable(site, lane_index, refname, params) -> value or None

    def __call__(self, site):
        self.visits += 1
        name = (site["name"] or "").lower().replace("_", "")
        rname = NAME2REF.get(name)
        if rname is None:
            raise NotImplementedError("no reference sampler for site " + str(site["name"]))
        tmp = dict(site)
        tmp["value"] = np.zeros(site["shape"], dtype=np.dtype(site["dtype"]))
        recs = ref.split_lanes(tmp)
        vals = []
        for i, rc in enumerate(recs):
            if any(p is None for p in rc["params"]):
                raise ValueError(f"site {site['name']}: parameters {[np.shape(a) for a in site['args']]} "
                                 f"do not broadcast against value shape {site['shape']}")
            ps = _order_params(rname, rc)
            v = None
            if self.forced is not None:
                v = self.forced(site, i, rname, ps)
            if v is None:
                v = ref.sample(rname, self.rng, *ps)
            vals.append(np.asarray(v))
            self.lanes.append(dict(d=rname, params=ps, value=np.asarray(v), site=site["idx"]))
        arr = np.stack(vals).reshape(tuple(site["shape"])) if vals else np.zeros(site["shape"])
        arr = arr.astype(np.dtype(site["dtype"]))
        raw = dict(site)
        raw["value"] = arr
        self.sites.append((rname, raw))
        return arr


_KWORDER = {"normal": ("loc", "scale"), "uniform": ("low", "high"), "exponential": ("rate",),
            "gamma": ("concentration", "rate"), "beta": ("concentration1", "concentration0"),
            "laplace": ("loc", "scale"), "bernoulli": ("logits",), "poisson": ("rate",),
            "mvn": ("loc", "covariance_matrix"), "dirichlet": ("concentration",), "categorical": ("logits",),
            "flip": ("p",), "geometric": ("logits",)}


def _order_params(rname, rc):
    """Positional order of the reference parameterisation from positional + keyword params."""
    pos = [p for p, n in zip(rc["params"], rc["pnames"]) if n is None]
    kws = {n: p for p, n in zip(rc["params"], rc["pnames"]) if n is not None}
    if not kws:
        return tuple(pos)
    if rname == "bernoulli" and "probs" in kws and "logits" not in kws:
        # the other documented parameterisation: canonical form is logits
        q = np.asarray(kws.pop("probs"), dtype=np.float64)
        kws["logits"] = np.log(q) - np.log1p(-q)
    order = _KWORDER[rname]
    out = list(pos)
    for n in order[len(pos):]:
        out.append(kws[n])
    return tuple(out)


def _lanes_of(rname, recs):
    return [dict(d=rname, params=_order_params(rname, rc), value=np.asarray(rc["value"]), site=rc["site"])
            for rc in recs if not any(p is None for p in rc["params"])]


def match_sites(ref_sites, lanes, want_live_only=False, script=None):
    """Multiset matching: every reference site record must be matched by one consulted lane with
    the same distribution, bit-equal value and (to float32 tolerance) equal parameters.
    When the RefScript is given, each vectorised site visit is re-split under every consistent
    alignment of parameter dims with lane dims and the best one is kept (shapes alone do not
    always determine which enclosing vmap level a parameter was mapped at).
    Returns (unmatched_ref, unmatched_lanes)."""
    if script is not None and getattr(script, "sites", None):
        chosen = []
        for rname, raw in script.sites:
            cands = [_lanes_of(rname, recs) for recs in ref.lane_candidates(raw)]
            cands = [c for c in cands if c] or [[]]
            if len(cands) == 1:
                chosen += cands[0]
                continue
            best = max(cands, key=lambda c: len(ref_sites) - len(_match(ref_sites, c)[0]))
            chosen += best
        lanes = chosen
        script.aligned = chosen
    return _match(ref_sites, lanes)


def _match(ref_sites, lanes):
    used = [False] * len(lanes)
    unmatched = []
    for s in ref_sites:
        d = "normal" if s["d"] == "normal_s" else s["d"]
        found = False
        for j, ln in enumerate(lanes):
            if used[j] or ln["d"] != d:
                continue
            a, b = np.asarray(s["value"]), np.asarray(ln["value"])
            if a.shape != b.shape or not np.array_equal(a.astype(np.float64), b.astype(np.float64)):
                continue
            if all(world.close(p, q, rtol=2e-4, atol=2e-5) for p, q in zip(s["params"], ln["params"])):
                used[j] = True
                found = True
                break
        if not found:
            unmatched.append(s)
    return unmatched, [ln for j, ln in enumerate(lanes) if not used[j]]


def site_str(s):
    return f"{s['d']}{'@' + '/'.join(map(str, s['path'])) if 'path' in s else ''} params={world.to_py(list(s['params']))} value={world.to_py(s['value'])}"


# ------------------------------------------------------------------ model case helpers


def gen_model_case(rng, tier, depth=None, dists=None, kinds=None, max_blocks=3, shared_cond=None):
    depth = depth if depth is not None else rng.choice([0, 1, 1, 2])
    m = progs.gen_model(rng, depth=depth, dists=dists, kinds=kinds, max_blocks=max_blocks, shared_cond=shared_cond)
    return {"model": m, "h": round(rng.uniform(-1.0, 1.0), 3)}


def pick_subset(rng, paths, mode=None):
    mode = mode or rng.choice(["none", "all", "some", "some", "one"])
    if mode == "none" or not paths:
        return []
    if mode == "all":
        return list(paths)
    if mode == "one":
        return [rng.choice(paths)]
    k = rng.randint(1, len(paths))
    return sorted(rng.sample(paths, k))


def shrink_model(m):
    """Candidate smaller models (drop blocks, unwrap combinators, shrink sizes, simplify dists)."""
    import copy

    bl = m["blocks"]
    for i in range(len(bl)):
        if len(bl) > 1:
            yield {"blocks": bl[:i] + bl[i + 1:]}
    for i, b in enumerate(bl):
        for sub in ("m", "ma", "mb"):
            if sub in b:
                # replace combinator by its body blocks (re-addressed to stay unique)
                body = copy.deepcopy(b[sub]["blocks"])
                for j, bb in enumerate(body):
                    bb["a"] = b["a"] + bb["a"]
                yield {"blocks": bl[:i] + body + bl[i + 1:]}
                for sm in shrink_model(b[sub]):
                    c = copy.deepcopy(m)
                    c["blocks"][i][sub] = sm
                    if b["k"] == "cond" and b.get("shared"):
                        continue  # keeping both branches structurally equal is not guaranteed
                    yield c
        if b.get("n", 1) > 1:
            c = copy.deepcopy(m)
            c["blocks"][i]["n"] = b["n"] - 1
            yield c
        if b["k"] in ("site", "vsite") and b["d"] not in ("normal", "flip"):
            c = copy.deepcopy(m)
            c["blocks"][i]["d"] = "normal" if progs.DISTS[b["d"]]["kind"] == "c" and not progs.DISTS[b["d"]].get("event") else b["d"]
            if c["blocks"][i]["d"] != b["d"]:
                yield c
        if b.get("kw"):
            c = copy.deepcopy(m)
            c["blocks"][i]["kw"] = False
            yield c
        if "g" in b:
            c = copy.deepcopy(m)
            del c["blocks"][i]["g"]
            yield c
        if b["k"] == "vsite" and b["mode"] != "all":
            c = copy.deepcopy(m)
            c["blocks"][i]["mode"] = "all"
            yield c
