"""JAX 0.7 -> 0.11 API adapter (see DESIGN.md section 2). Monkeypatches JAX only; must be imported before genjax."""
import jax, jax.core as jc
import jax._src.core as jsc
from jax._src.lax.control_flow.loops import scan_p
if not hasattr(jsc, "get_aval"):
    jsc.get_aval = jsc.typeof
for name in ("get_aval", "DropVar"):
    try:
        getattr(jc, name)
    except AttributeError:
        setattr(jc, name, getattr(jsc, name))
if not hasattr(jsc.Var, "count"):
    jsc.Var.count = property(lambda self: id(self))

class _BindParams(dict):
    """JAX>=0.10 returns one dict (with optional 'subfuns'); genjax unpacks (subfuns, params)."""
    _legacy = None
    def __iter__(self):
        # JAX>=0.10 bind() takes sub-functions through the 'subfuns' keyword,
        # so the legacy positional list is empty and the dict is passed through.
        p = dict(dict.items(self))
        if self._legacy: p.update(self._legacy)
        return iter(([], p))

def _wrap_gbp(cls):
    orig = cls.__dict__.get("get_bind_params")
    if orig is None or getattr(orig, "_verif", False): return
    def get_bind_params(self, params, _orig=orig):
        r = _orig(self, params)
        if isinstance(r, tuple): return r
        r = _BindParams(r)
        if self is scan_p and "ft_in" in r:
            c, k, x = r["ft_in"].unpack()
            r._legacy = dict(num_consts=len(c), num_carry=len(k),
                             jaxpr=jsc.ClosedJaxpr(r["jaxpr"], ()) if not isinstance(r["jaxpr"], jsc.ClosedJaxpr) else r["jaxpr"],
                             linear=(False,)*(len(c)+len(k)+len(x)), _split_transpose=False)
        return r
    get_bind_params._verif = True
    cls.get_bind_params = get_bind_params
def _all_sub(c):
    yield c
    for s in c.__subclasses__():
        yield from _all_sub(s)
def patch_prims():
    for c in list(_all_sub(jsc.Primitive)):
        _wrap_gbp(c)
patch_prims()

# --- ad.Zero.from_primal_value (removed) ---
from jax._src import ad_util as _ad_util
if not hasattr(_ad_util.Zero, "from_primal_value"):
    def _from_primal_value(cls, val):
        return cls(jsc.typeof(val).to_tangent_aval())
    _ad_util.Zero.from_primal_value = classmethod(_from_primal_value)

# --- ad.jvp(WrappedFun).call_wrapped(primals, tangents) (linear_util-style, removed) ---
import jax.interpreters.ad as _pub_ad
import inspect as _inspect
if "primals" in _inspect.signature(_pub_ad.jvp).parameters:
    _new_jvp = _pub_ad.jvp
    class _LegacyJvp:
        def __init__(self, fun): self.fun = fun
        def call_wrapped(self, primals, tangents):
            primals = tuple(primals)
            tangents = tuple(
                _pub_ad.instantiate_zeros(t) if isinstance(t, _ad_util.Zero) else t
                for t in tangents)
            f = self.fun
            call = f.call_wrapped if hasattr(f, "call_wrapped") else f
            return jax.jvp(lambda *a: tuple(call(*a)), primals, tangents)
    def _compat_jvp(fun, *args, **kwargs):
        if not args and not kwargs:
            return _LegacyJvp(fun)
        return _new_jvp(fun, *args, **kwargs)
    _pub_ad.jvp = _compat_jvp
