"""The simulated world: one Python process holding the real genjax from $VERIF_REPO.

Owns every process-global seam the properties depend on (DESIGN.md section 3.1):
  core.handler_stack, pjax.global_counter, pjax.enforce_lowering_exception,
  pjax.lowering_warning, the staging / jit caches.
Nothing here draws randomness or reads a clock.
"""

import os
import sys
import hashlib

REPO = os.environ.get("VERIF_REPO", "/repo")
_SRC = os.path.join(REPO, "src")
if _SRC not in sys.path:
    sys.path.insert(0, _SRC)

os.environ.setdefault("JAX_PLATFORMS", "cpu")
os.environ.setdefault(
    "XLA_FLAGS",
    "--xla_cpu_multi_thread_eigen=false intra_op_parallelism_threads=1",
)
os.environ.setdefault("TF_CPP_MIN_LOG_LEVEL", "3")
os.environ.setdefault("OMP_NUM_THREADS", "1")

import warnings

warnings.filterwarnings("ignore")

from . import jaxcompat  # noqa: F401  (must precede genjax)

import numpy as np
import jax
import jax.numpy as jnp
import jax.tree_util as jtu

if os.environ.get("VERIF_X64") == "1":
    jax.config.update("jax_enable_x64", True)

# Disk cache for XLA executables (speed only: lowering is still redone after a `flush` fault).
if os.environ.get("VERIF_NO_DISKCACHE") != "1":
    try:
        _cdir = os.environ.get("VERIF_CACHE_DIR") or os.path.join(
            os.path.dirname(os.path.dirname(os.path.abspath(__file__))), ".cache", "jax")
        os.makedirs(_cdir, exist_ok=True)
        jax.config.update("jax_compilation_cache_dir", _cdir)
        jax.config.update("jax_persistent_cache_min_compile_time_secs", 0.0)
        jax.config.update("jax_persistent_cache_min_entry_size_bytes", -1)
    except Exception:
        pass

import genjax
from genjax import core as gcore
from genjax import pjax as gpjax

_gfile = os.path.realpath(genjax.__file__)
if not _gfile.startswith(os.path.realpath(_SRC) + os.sep):
    raise SystemExit(
        f"HARNESS-ERROR: genjax imported from {_gfile}, expected under {_SRC}"
    )


class InjectedFault(Exception):
    """Raised by harness-built model statements / distributions at the site the scheduler chose."""


# ---------------------------------------------------------------- global state seams


def reset():
    """Start-of-run isolation: process-global genjax state back to defaults.

    JAX's own caches are deliberately NOT flushed: warm or cold must not matter
    (if it does, that is property C06)."""
    del gcore.handler_stack[:]
    gpjax.global_counter.count = 0
    gpjax.enforce_lowering_exception = True
    gpjax.lowering_warning = False


def global_sig():
    """Signature of the process-global state observed between top-level operations."""
    return (
        len(gcore.handler_stack),
        bool(gpjax.enforce_lowering_exception),
        bool(gpjax.lowering_warning),
    )


def globals_clean():
    return global_sig() == (0, True, False)


def counter():
    return gpjax.global_counter.count


# ---------------------------------------------------------------- faults on the seams


def fault_flush():
    """Lose every cache (jit executables, lu.cache staging caches). Traces survive."""
    jax.clear_caches()
    return True


def fault_ctr(value):
    old = gpjax.global_counter.count
    gpjax.global_counter.count = int(value)
    return old != int(value)


class flagflip:
    """A neighbour disables the lowering exception around one operation and restores it."""

    def __enter__(self):
        self.old = (gpjax.enforce_lowering_exception, gpjax.lowering_warning)
        gpjax.enforce_lowering_exception = False
        gpjax.lowering_warning = True
        return self

    def __exit__(self, *a):
        gpjax.enforce_lowering_exception, gpjax.lowering_warning = self.old
        return False


# ---------------------------------------------------------------- digests and comparison


def _canon(x):
    if isinstance(x, (jax.Array, np.ndarray, np.generic)):
        try:
            if jnp.issubdtype(x.dtype, jax.dtypes.prng_key):
                x = jax.random.key_data(x)
        except Exception:
            pass
        a = np.asarray(x)
        return a
    # Python scalars are canonicalised the way JAX does when they cross a transformation boundary
    if isinstance(x, bool):
        return np.asarray(x, dtype=np.bool_)
    if isinstance(x, int):
        return np.asarray(x, dtype=np.int64 if jax.config.jax_enable_x64 else np.int32)
    if isinstance(x, float):
        return np.asarray(x, dtype=np.float64 if jax.config.jax_enable_x64 else np.float32)
    return None


def leaves(tree):
    """Array leaves of any pytree (traces included), in canonical (sorted-dict) order."""
    out = []
    for leaf in jtu.tree_leaves(tree):
        a = _canon(leaf)
        if a is not None:
            out.append(a)
    return out


def digest(tree):
    h = hashlib.sha256()
    for a in leaves(tree):
        h.update(str(a.dtype).encode())
        h.update(str(a.shape).encode())
        h.update(np.ascontiguousarray(a).tobytes())
    return h.hexdigest()[:16]


def bit_equal(a, b):
    la, lb = leaves(a), leaves(b)
    if len(la) != len(lb):
        return False
    for x, y in zip(la, lb):
        if x.dtype != y.dtype or x.shape != y.shape:
            return False
        if x.tobytes() != y.tobytes():
            return False
    return True


def close(a, b, rtol=2e-4, atol=2e-4):
    """Float comparison |a-b| <= atol + rtol*max(|a|,|b|); exact on non-floats; inf==inf."""
    a = np.asarray(a)
    b = np.asarray(b)
    if a.shape != b.shape:
        try:
            a, b = np.broadcast_arrays(a, b)
        except ValueError:
            return False
    if a.dtype.kind in "fc" or b.dtype.kind in "fc":
        a = a.astype(np.float64)
        b = b.astype(np.float64)
        same_inf = (np.isinf(a) & np.isinf(b) & (np.sign(a) == np.sign(b)))
        with np.errstate(invalid="ignore"):
            ok = np.abs(a - b) <= atol + rtol * np.maximum(np.abs(a), np.abs(b))
        ok = ok | same_inf
        nan = np.isnan(a) | np.isnan(b)
        return bool(np.all(ok & ~nan))
    return bool(np.array_equal(a.astype(np.int64), b.astype(np.int64)))


def tree_close(a, b, rtol=1e-5, atol=1e-6):
    """Cross-transformation equality rule (DESIGN 3.10): float leaves to rtol, others exact
    unless a float leaf already differed beyond 1e-6 (then discrete leaves are skipped).
    Returns (ok, skipped_discrete)."""
    la, lb = leaves(a), leaves(b)
    if len(la) != len(lb):
        return False, 0
    float_moved = False
    for x, y in zip(la, lb):
        if x.shape != y.shape:
            return False, 0
        if x.dtype.kind == "f":
            if not close(x, y, rtol, atol):
                return False, 0
            if not close(x, y, 1e-6, 1e-7):
                float_moved = True
    skipped = 0
    for x, y in zip(la, lb):
        if x.dtype.kind != "f":
            if not np.array_equal(x, y):
                if float_moved:
                    skipped += 1
                else:
                    return False, 0
    return True, skipped


def to_py(x):
    """JSON-able rendering of small pytrees for evidence samples / replay files."""
    if isinstance(x, dict):
        return {str(k): to_py(v) for k, v in x.items()}
    if isinstance(x, (list, tuple)):
        return [to_py(v) for v in x]
    a = _canon(x)
    if a is not None:
        if a.dtype.kind == "f":
            return np.round(a.astype(np.float64), 6).tolist()
        return a.tolist()
    if x is None or isinstance(x, str):
        return x
    return repr(x)


def innermost_genjax_frame(exc):
    """'<file>:<function>' of the innermost frame inside src/genjax, for finding signatures."""
    import traceback

    tb = traceback.extract_tb(exc.__traceback__)
    for fr in reversed(tb):
        if "/genjax/" in fr.filename and "/sim/" not in fr.filename:
            return os.path.basename(fr.filename) + ":" + fr.name
    return None
