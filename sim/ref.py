"""PPL-ref: the reference model of the modelling language (DESIGN 3.6).

Independent evaluator in numpy float64 with Python loops for lanes / scan steps and a Python `if`
for Cond, hand-written log densities (math / scipy.special, no TFP) and numpy samplers.
The reference trace is "a nested dict of choices and the args".
"""

import math
import numpy as np
from scipy import special as sp

from .progs import DISTS, fold, lanes, scan_xs, gj_name

F = np.float64


# ------------------------------------------------------------------ densities / samplers / supports


def _logsumexp(a):
    m = np.max(a)
    return m + math.log(np.sum(np.exp(a - m)))


def logpdf(d, x, *p):
    """Log density / mass of one (unbatched) draw under the documented parameterisation."""
    p = [np.asarray(q, dtype=F) for q in p]
    if d in ("normal", "normal_s"):
        loc, sc = p
        z = (F(x) - loc) / sc
        return float(-0.5 * z * z - math.log(sc) - 0.5 * math.log(2 * math.pi))
    if d == "uniform":
        lo, hi = p
        return float(-math.log(hi - lo)) if lo <= F(x) <= hi else -math.inf
    if d == "exponential":
        (r,) = p
        return float(math.log(r) - r * F(x)) if F(x) >= 0 else -math.inf
    if d == "gamma":
        a, r = p
        x = F(x)
        if x <= 0:
            return -math.inf
        return float(a * math.log(r) - sp.gammaln(a) + (a - 1) * math.log(x) - r * x)
    if d == "beta":
        a, b = p
        x = F(x)
        if not (0 < x < 1):
            return -math.inf
        return float(sp.gammaln(a + b) - sp.gammaln(a) - sp.gammaln(b) + (a - 1) * math.log(x) + (b - 1) * math.log1p(-x))
    if d == "laplace":
        loc, sc = p
        return float(-abs(F(x) - loc) / sc - math.log(2 * sc))
    if d == "flip":
        (q,) = p
        return float(math.log(q) if bool(x) else math.log1p(-q))
    if d == "bernoulli":
        (lg,) = p
        q = 1.0 / (1.0 + math.exp(-lg))
        return float(math.log(q) if int(x) == 1 else math.log1p(-q))
    if d == "categorical":
        (lg,) = p
        return float(lg[int(x)] - _logsumexp(lg))
    if d == "poisson":
        (r,) = p
        k = int(x)
        if k < 0:
            return -math.inf
        return float(k * math.log(r) - r - sp.gammaln(k + 1))
    if d == "geometric":
        (q,) = p
        k = int(x)
        return float(k * math.log1p(-q) + math.log(q)) if k >= 0 else -math.inf
    if d == "mvn":
        loc, cov = p
        x = np.asarray(x, dtype=F)
        k = loc.shape[-1]
        diff = x - loc
        sign, logdet = np.linalg.slogdet(cov)
        sol = np.linalg.solve(cov, diff)
        return float(-0.5 * (k * math.log(2 * math.pi) + logdet + diff @ sol))
    if d == "dirichlet":
        (a,) = p
        x = np.asarray(x, dtype=F)
        if np.any(x <= 0):
            return -math.inf
        return float(sp.gammaln(np.sum(a)) - np.sum(sp.gammaln(a)) + np.sum((a - 1) * np.log(x)))
    raise KeyError(d)


def sample(d, rng, *p):
    """Draw one value with a numpy Generator (reference sampler; used for in-support choice maps
    and as the script of the SCRIPTED regime)."""
    p = [np.asarray(q, dtype=F) for q in p]
    if d in ("normal", "normal_s"):
        return np.float32(rng.normal(p[0], p[1]))
    if d == "uniform":
        lo, hi = p
        return np.float32(lo + (hi - lo) * (0.02 + 0.96 * rng.random()))
    if d == "exponential":
        return np.float32(rng.exponential(1.0 / p[0]) + 1e-3)
    if d == "gamma":
        return np.float32(rng.gamma(p[0], 1.0 / p[1]) + 1e-3)
    if d == "beta":
        return np.float32(np.clip(rng.beta(p[0], p[1]), 1e-3, 1 - 1e-3))
    if d == "laplace":
        return np.float32(rng.laplace(p[0], p[1]))
    if d == "flip":
        return np.bool_(rng.random() < p[0])
    if d == "bernoulli":
        return np.int32(rng.random() < 1.0 / (1.0 + math.exp(-p[0])))
    if d == "categorical":
        lg = p[0]
        pr = np.exp(lg - _logsumexp(lg))
        return np.int32(rng.choice(len(pr), p=pr / pr.sum()))
    if d == "poisson":
        return np.float32(rng.poisson(p[0]))
    if d == "mvn":
        return rng.multivariate_normal(p[0], p[1]).astype(np.float32)
    if d == "dirichlet":
        x = rng.dirichlet(p[0])
        x = np.clip(x, 1e-3, None)
        return (x / x.sum()).astype(np.float32)
    raise KeyError(d)


def support(d, *p):
    if d == "categorical":
        return list(range(int(np.shape(p[0])[-1])))
    s = DISTS[d].get("support")
    if s is None:
        raise KeyError("no finite support: " + d)
    return list(s)


def value_dtype(d):
    return {"flip": np.bool_, "bernoulli": np.int32, "categorical": np.int32}.get(d, np.float32)


# ------------------------------------------------------------------ tree helpers on nested dict choice maps


def tree_index(t, i):
    if isinstance(t, dict):
        return {k: tree_index(v, i) for k, v in t.items()}
    return None if t is None else np.asarray(t)[i]


def tree_stack(ts):
    t0 = ts[0]
    if isinstance(t0, dict):
        return {k: tree_stack([t[k] for t in ts]) for k in t0}
    return np.stack([np.asarray(t) for t in ts])


def leaf_paths(t, prefix=()):
    """All address paths (tuples of strings) of a nested dict choice map."""
    if isinstance(t, dict):
        out = []
        for k in sorted(t):
            out += leaf_paths(t[k], prefix + (k,))
        return out
    return [prefix]


def get_path(t, path):
    for a in path:
        if not isinstance(t, dict) or a not in t:
            return None
        t = t[a]
    return t


def set_path(t, path, v):
    for a in path[:-1]:
        t = t.setdefault(a, {})
    t[path[-1]] = v


def subset(t, paths):
    out = {}
    for p in paths:
        v = get_path(t, p)
        if v is not None:
            set_path(out, p, v)
    return out


def overlay(base, over):
    """base overwritten by `over` (nested dicts)."""
    if not isinstance(base, dict) or not isinstance(over, dict):
        return over
    out = dict(base)
    for k, v in over.items():
        out[k] = overlay(base[k], v) if k in base else v
    return out


def to_np(t):
    if isinstance(t, dict):
        return {k: to_np(v) for k, v in t.items()}
    return np.asarray(t)


def trees_equal_bits(a, b):
    if isinstance(a, dict) != isinstance(b, dict):
        return False
    if isinstance(a, dict):
        return set(a) == set(b) and all(trees_equal_bits(a[k], b[k]) for k in a)
    a, b = np.asarray(a), np.asarray(b)
    return a.shape == b.shape and a.dtype == b.dtype and a.tobytes() == b.tobytes()


def model_paths(model, prefix=()):
    """Static address paths of all leaves the model's visible choice map contains."""
    out = []
    for b in model["blocks"]:
        p = prefix + (b["a"],)
        if b["k"] in ("site", "vsite"):
            out.append(p)
        elif b["k"] in ("call", "vcall", "scan"):
            out += model_paths(b["m"], p)
        elif b["k"] == "cond":
            pa = model_paths(b["ma"], p)
            pb = model_paths(b["mb"], p)
            out += pa + [q for q in pb if q not in pa]
    return out


def path_info(model, path):
    """(dist, batch_prefix_kinds) for a leaf path; kinds from outermost: 'v' (vmap lanes) / 't' (scan)."""
    blocks = model["blocks"]
    for b in blocks:
        if b["a"] != path[0]:
            continue
        if b["k"] == "site":
            return [(b["d"], [])]
        if b["k"] == "vsite":
            return [(b["d"], ["v"])]
        kinds = {"call": [], "vcall": ["v"], "scan": ["t"]}
        if b["k"] in kinds:
            return [(d, kinds[b["k"]] + ks) for d, ks in path_info(b["m"], path[1:])]
        if b["k"] == "cond":
            out = []
            for m in (b["ma"], b["mb"]):
                try:
                    out += path_info(m, path[1:])
                except KeyError:
                    pass
            if out:
                return out
    raise KeyError(path)


# ------------------------------------------------------------------ the evaluator


class Result:
    def __init__(self):
        self.logp = 0.0
        self.sites = []  # dicts: path, idx, d, params, value, logp, live, sampled
        self.retval = None
        self.choices = None
        self.checks = []  # (path, bool) of every Cond predicate evaluated on a live path
        self.hidden_lanes = 0  # lanes drawn in Cond branches whose values are hidden (shared addresses)


def run(model, h, choices=None, rng=None, kind="top", x=None, full=True):
    """Evaluate the model on `choices` (nested dict). Addresses missing from `choices` are sampled
    with `rng` (numpy Generator) if given, else KeyError. Returns Result with the joint log density
    of the live sites, the return value, the complete visible choice map and per-site records."""
    res = Result()
    ch = {} if choices is None else choices
    out_choices = {}
    h = F(h)
    if kind == "step":
        h = F(h) + F(x)
    h = _blocks(model["blocks"], h, ch, out_choices, rng, res, (), (), True)
    res.choices = out_choices
    res.retval = (h, 0.5 * h) if kind == "step" else h
    return res


def _site(d, h_params, given, rng, res, path, idx, live):
    if given is None:
        if rng is None:
            raise KeyError(path)
        v = rng.choose(d, h_params) if hasattr(rng, "choose") else sample(d, rng, *h_params)
        sampled = True
    else:
        v = np.asarray(given)
        sampled = False
    lp = logpdf(d, v, *h_params)
    res.sites.append(dict(path=path, idx=idx, d=d, params=tuple(np.asarray(q, dtype=F) for q in h_params),
                          value=np.asarray(v), logp=lp, live=live, sampled=sampled))
    if live:
        res.logp += lp
    return v


def _blocks(blocks, h, ch, out, rng, res, path, idx, live):
    for b in blocks:
        a = b["a"]
        k = b["k"]
        p = path + (a,)
        given = ch.get(a) if isinstance(ch, dict) else None
        if k == "site":
            params = DISTS[b["d"]]["params"](np, h)
            v = _site(b["d"], params, given, rng, res, p, idx, live)
            out[a] = v
            h = fold(np, h, v)
        elif k == "vsite":
            n = b["n"]
            vs = []
            for i in range(n):
                if b["mode"] == "repeat":
                    params = DISTS[b["d"]]["params"](np, h)
                elif b["mode"] in ("all", "int0"):
                    params = DISTS[b["d"]]["params"](np, h + 0.1 * i)
                else:
                    pl = DISTS[b["d"]]["params"](np, h + 0.1 * i)
                    ps = DISTS[b["d"]]["params"](np, h)
                    params = (pl[0],) + tuple(ps[1:])
                g = None if given is None else np.asarray(given)[i]
                vs.append(_site(b["d"], params, g, rng, res, p, idx + (i,), live))
            xs = np.stack(vs)
            out[a] = xs
            h = fold(np, h, xs)
        elif k == "call":
            sub_out = {}
            h = _blocks(b["m"]["blocks"], F(h * b["g"]) if "g" in b else h, given or {}, sub_out, rng, res, p, idx, live)
            out[a] = sub_out
        elif k == "vcall":
            n = b["n"]
            subs, rs = [], []
            for i in range(n):
                hi = h if b["mode"] == "repeat" else h + 0.1 * i
                so = {}
                gi = tree_index(given, i) if given else {}
                rs.append(_blocks(b["m"]["blocks"], F(hi), gi, so, rng, res, p, idx + (i,), live))
                subs.append(so)
            out[a] = tree_stack(subs)
            h = fold(np, h, np.asarray(rs))
        elif k == "scan":
            T = b["n"]
            xs = scan_xs(np, T)
            carry = h
            subs, outs = [], []
            for t in range(T):
                so = {}
                gt = tree_index(given, t) if given else {}
                hh = _blocks(b["m"]["blocks"], F(carry) + xs[t], gt, so, rng, res, p, idx + (t,), live)
                carry = hh
                outs.append(0.5 * hh)
                subs.append(so)
            out[a] = tree_stack(subs)
            h = 0.5 * carry + 0.2 * np.tanh(np.mean(outs))
        elif k == "cond":
            check = bool(h > b["thr"])
            if live:
                res.checks.append((p, check))
            taken, other = (b["ma"], b["mb"]) if check else (b["mb"], b["ma"])
            so = {}
            h_in = h
            h = _blocks(taken["blocks"], h_in, given or {}, so, rng, res, p, idx, live)
            if b.get("shared"):
                res.hidden_lanes += lanes_of(other)
            if not b.get("shared"):
                # disjoint addresses: the dead branch's choices are part of the visible choice map
                # (they do not count towards the density)
                dead = {}
                _blocks(other["blocks"], h_in, given or {}, dead, rng, res, p, idx, False)
                for kk, vv in dead.items():
                    if kk not in so:
                        so[kk] = vv
            out[a] = so
        else:
            raise ValueError(k)
    return h


def visits(m):
    """Sample-site visits the implementation makes when it runs model m once (vectorised sites
    count once, scan bodies once per step, both Cond branches)."""
    c = 0
    for b in m["blocks"]:
        if b["k"] in ("site", "vsite"):
            c += 1
        elif b["k"] in ("call", "vcall"):
            c += visits(b["m"])
        elif b["k"] == "scan":
            c += b["n"] * visits(b["m"])
        elif b["k"] == "cond":
            c += visits(b["ma"]) + visits(b["mb"])
    return c


def lanes_of(m):
    """Number of scalar draws (lanes x steps) one execution of m makes, both Cond branches included."""
    c = 0
    for b in m["blocks"]:
        if b["k"] == "site":
            c += 1
        elif b["k"] == "vsite":
            c += b["n"]
        elif b["k"] == "call":
            c += lanes_of(b["m"])
        elif b["k"] in ("vcall", "scan"):
            c += b["n"] * lanes_of(b["m"])
        elif b["k"] == "cond":
            c += lanes_of(b["ma"]) + lanes_of(b["mb"])
    return c


def lane_records(log):
    """Split the SCRIPTED evaluator's site log into per-lane records (dist name, params, value)."""
    out = []
    for s in log:
        out += split_lanes(s)
    return out


_GJ2EVENT = {}
for _d, _spec in DISTS.items():
    _GJ2EVENT.setdefault(gj_name(_d).lower().replace("_", ""), (_spec.get("event", ()), _spec.get("pevent")))


def _embeddings(pb, rest):
    """Order-preserving placements of a parameter's batch dims `pb` among the value's lane dims
    `rest` (sizes must agree). The prefix placement (parameter mapped at every enclosing level,
    possibly unmapped at the innermost ones) comes first."""
    import itertools

    out = []
    for pos in itertools.combinations(range(len(rest)), len(pb)):
        if all(rest[p] == d or d == 1 for p, d in zip(pos, pb)):
            out.append(pos)
    out.sort(key=lambda pos: (pos != tuple(range(len(pb))), pos))
    return out


def lane_candidates(site, limit=12):
    """Per-lane records of a (vectorised) site under every consistent alignment of parameter batch
    dims with value lane dims. Layout of a site: value = sample_shape dims + lane dims (outermost
    vmap first, `repeat` dims in between where they were applied) + event; a parameter carries a
    subsequence of the lane dims. Returns a list of lane-record lists (first = preferred)."""
    import itertools

    name = (site["name"] or "").lower().replace("_", "")
    ev, pev = _GJ2EVENT.get(name, ((), None))
    if ev:
        a0 = site["args"][0] if site["args"] else site["kwargs"].get("loc", site["kwargs"].get("concentration"))
        ev = (int(np.shape(a0)[-1]),)
    val = np.asarray(site["value"])
    lead = val.shape[: val.ndim - len(ev)]
    nl = int(np.prod(lead)) if lead else 1
    vflat = val.reshape((nl,) + tuple(ev))
    args = list(site["args"]) + [site["kwargs"][k] for k in sorted(site["kwargs"])]
    names = [None] * len(site["args"]) + sorted(site["kwargs"])
    ss = tuple(site.get("sample_shape") or ())
    rest = lead[len(ss):] if lead[: len(ss)] == ss else lead
    nss = len(lead) - len(rest)
    per_param = []
    for j, a in enumerate(args):
        a = np.asarray(a)
        r = pev[j] if (pev is not None and j < len(pev) and names[j] is None) else _kw_rank(name, names[j])
        pe = a.shape[a.ndim - r:] if r else ()
        pb = a.shape[: a.ndim - r] if r else a.shape
        cands = []
        for pos in _embeddings(pb, rest) if len(pb) <= len(rest) else []:
            shape = [1] * len(rest)
            for p, d in zip(pos, pb):
                shape[p] = d
            try:
                ab = np.broadcast_to(a.reshape((1,) * nss + tuple(shape) + tuple(pe)), tuple(lead) + tuple(pe))
                cands.append(ab.reshape((nl,) + tuple(pe)))
            except ValueError:
                pass
        per_param.append(cands or [None])
    out = []
    for combo in itertools.islice(itertools.product(*per_param), limit):
        recs = []
        for i in range(nl):
            ps = tuple(None if q is None else q[i] for q in combo)
            recs.append(dict(name=name, params=ps, pnames=names, value=vflat[i], site=site.get("idx")))
        out.append(recs)
    return out


def split_lanes(site):
    return lane_candidates(site, limit=1)[0]


def _kw_rank(name, kw):
    if kw is None:
        return 0
    if name == "categorical":
        return 1
    if name == "multivariatenormal":
        return {"loc": 1, "covariance_matrix": 2}.get(kw, 0)
    if name == "dirichlet":
        return 1
    return 0


# ------------------------------------------------------------------ brute force over discrete completions


class _Chooser:
    """Stands in for the rng: enumerates the finite support of every unconstrained site (odometer)."""

    def __init__(self):
        self.trail = []
        self.pos = 0

    def choose(self, d, params):
        sup = support(d, *params)
        pr = [math.exp(logpdf(d, v, *params)) for v in sup]
        i = self.pos
        if i < len(self.trail):
            idx = self.trail[i][1]
        else:
            self.trail.append([len(sup), 0, 0.0])
            idx = 0
        self.trail[i][2] = pr[idx]
        self.pos += 1
        return np.asarray(sup[idx], dtype=value_dtype(d))

    def advance(self):
        del self.trail[self.pos:]
        while self.trail and self.trail[-1][1] + 1 >= self.trail[-1][0]:
            self.trail.pop()
        if not self.trail:
            return False
        self.trail[-1][1] += 1
        return True

    def prob(self):
        p = 1.0
        for t in self.trail[: self.pos]:
            p *= t[2]
        return p


def completions(model, h, constraints, max_leaves=100000, kind="top", x=None):
    """Yield (Result, P_unconstrained) for every completion of the unconstrained discrete sites.
    P_unconstrained = product of the probabilities of all enumerated (sampled) sites."""
    ch = _Chooser()
    n = 0
    while True:
        ch.pos = 0
        r = run(model, h, constraints, rng=ch, kind=kind, x=x)
        yield r, ch.prob()
        n += 1
        if n > max_leaves:
            raise RuntimeError("too many completions")
        if not ch.advance():
            return


def marginal(model, h, constraints, constrained_paths):
    """Exact marginal probability of the constraints: sum over completions of
    P(unconstrained draws) * prod of the live constrained sites' probabilities."""
    cp = set(map(tuple, constrained_paths))
    total = 0.0
    for r, pu in completions(model, h, constraints):
        lw = sum(s["logp"] for s in r.sites if s["live"] and tuple(s["path"]) in cp)
        total += pu * math.exp(lw)
    return total
