"""Selection expressions as JSON, their genjax objects and their reference (Boolean-algebra) meaning.

  {"t":"all"} {"t":"none"} {"t":"str","a":x} {"t":"tuple","p":[...]} {"t":"dict","d":{a: sel}}
  {"t":"or","l":s,"r":s} {"t":"and","l":s,"r":s} {"t":"not","s":s}

Reference meaning (C16): a path is selected by s|t iff by s or t, by s^t iff by both, by ~s iff not
by s, never by sel(), always by sel(()); sel("a") selects everything under a, sel(("a","b")) exactly
the sub-tree a/b, dict selections delegate per key.
"""


def build(s):
    from genjax import sel

    t = s["t"]
    if t == "all":
        return sel(())
    if t == "none":
        return sel()
    if t == "str":
        return sel(s["a"])
    if t == "tuple":
        return sel(tuple(s["p"]))
    if t == "dict":
        return sel({k: build(v) for k, v in s["d"].items()})
    if t == "or":
        return build(s["l"]) | build(s["r"])
    if t == "and":
        return build(s["l"]) ^ build(s["r"])
    if t == "not":
        return ~build(s["s"])
    raise ValueError(t)


def selected(path, s):
    """Reference meaning: is the leaf at address path `path` (tuple of strings, may be ()) selected?"""
    t = s["t"]
    path = tuple(path)
    if t == "all":
        return True
    if t == "none":
        return False
    if t == "str":
        return len(path) >= 1 and path[0] == s["a"]
    if t == "tuple":
        p = tuple(s["p"])
        return len(p) > 0 and path[: len(p)] == p
    if t == "dict":
        return len(path) >= 1 and path[0] in s["d"] and selected(path[1:], s["d"][path[0]])
    if t == "or":
        return selected(path, s["l"]) or selected(path, s["r"])
    if t == "and":
        return selected(path, s["l"]) and selected(path, s["r"])
    if t == "not":
        return not selected(path, s["s"])
    raise ValueError(t)


def _path_sel(rng, p):
    """One of the spellings of 'the sub-tree at path p'."""
    p = list(p)
    k = rng.choice(["tuple", "dict", "str"] if len(p) == 1 else ["tuple", "dict"])
    if k == "str":
        return {"t": "str", "a": p[0]}
    if k == "tuple":
        return {"t": "tuple", "p": p}
    s = {"t": "all"}
    for a in reversed(p):
        s = {"t": "dict", "d": {a: s}}
    return s


def gen_template(rng, paths):
    """Compositions in which complements / intersections / unions meet *inside* a sub-tree: the cases
    where the remainder of a match matters (a complement selects below an address it does not match)."""
    deep = [p for p in paths if len(p) >= 2] or list(paths)
    p = rng.choice(deep)
    prefix = p[: rng.randint(1, max(1, len(p) - 1))]
    nots = {"t": "not", "s": _path_sel(rng, p)}
    pre = _path_sel(rng, prefix)
    q = rng.choice(paths)
    kind = rng.choice(["not_and_prefix", "prefix_and_not", "not_or_other", "not_not", "demorgan_and", "demorgan_or", "not_alone",
                       "dict_op_dict", "dict_op_dict"])
    if kind == "dict_op_dict":
        # two dict selections that share a key and delegate to different sub-selections under it
        same = [x for x in deep if x[0] == p[0]]
        q2 = rng.choice(same)

        def under(x):
            inner = _path_sel(rng, x[1:]) if len(x) > 1 and rng.random() < 0.8 else {"t": "all"}
            d = {x[0]: inner}
            if rng.random() < 0.3:
                o = rng.choice(paths)
                if o[0] != x[0]:
                    d[o[0]] = {"t": "all"}
            return {"t": "dict", "d": d}

        return {"t": rng.choice(["or", "or", "and"]), "l": under(p), "r": under(q2)}
    if kind == "not_and_prefix":
        return {"t": "and", "l": nots, "r": pre}
    if kind == "prefix_and_not":
        return {"t": "and", "l": pre, "r": nots}
    if kind == "not_or_other":
        return {"t": "or", "l": {"t": "and", "l": nots, "r": pre}, "r": _path_sel(rng, q)}
    if kind == "not_not":
        return {"t": "not", "s": {"t": "not", "s": _path_sel(rng, p)}}
    if kind == "demorgan_and":
        return {"t": "not", "s": {"t": "and", "l": _path_sel(rng, p), "r": _path_sel(rng, q)}}
    if kind == "demorgan_or":
        return {"t": "not", "s": {"t": "or", "l": _path_sel(rng, p), "r": _path_sel(rng, q)}}
    return nots


def gen_sel(rng, paths, depth=2, atoms_only=False):
    """Random selection expression over the address alphabet of `paths`."""
    paths = [tuple(p) for p in paths] or [("a",)]
    if depth >= 1 and not atoms_only and rng.random() < 0.3:
        return gen_template(rng, paths)
    r = rng.random()
    if depth <= 0 or atoms_only or r < 0.45:
        k = rng.choice(["str", "str", "tuple", "tuple", "all", "none", "dict", "prefix"])
        p = rng.choice(paths)
        if k == "all":
            return {"t": "all"}
        if k == "none":
            return {"t": "none"}
        if k == "str":
            return {"t": "str", "a": rng.choice(p)}
        if k == "tuple":
            return {"t": "tuple", "p": list(p)}
        if k == "prefix":
            return {"t": "tuple", "p": list(p[: rng.randint(1, len(p))])}
        if k == "dict":
            inner = {"t": "all"} if len(p) == 1 else gen_sel(rng, [p[1:]], depth - 1, True)
            return {"t": "dict", "d": {p[0]: inner}}
    k = rng.choice(["or", "or", "and", "not"])
    if k == "not":
        return {"t": "not", "s": gen_sel(rng, paths, depth - 1)}
    return {"t": k, "l": gen_sel(rng, paths, depth - 1), "r": gen_sel(rng, paths, depth - 1)}


def show(s):
    t = s["t"]
    if t == "all":
        return "sel(())"
    if t == "none":
        return "sel()"
    if t == "str":
        return f"sel({s['a']!r})"
    if t == "tuple":
        return f"sel({tuple(s['p'])!r})"
    if t == "dict":
        return "sel({" + ", ".join(f"{k!r}: {show(v)}" for k, v in s["d"].items()) + "})"
    if t == "or":
        return f"({show(s['l'])} | {show(s['r'])})"
    if t == "and":
        return f"({show(s['l'])} ^ {show(s['r'])})"
    if t == "not":
        return f"~{show(s['s'])}"


def shrink(s):
    t = s["t"]
    if t in ("or", "and"):
        yield s["l"]
        yield s["r"]
        for x in shrink(s["l"]):
            yield {"t": t, "l": x, "r": s["r"]}
        for x in shrink(s["r"]):
            yield {"t": t, "l": s["l"], "r": x}
    elif t == "not":
        yield s["s"]
        for x in shrink(s["s"]):
            yield {"t": "not", "s": x}
    elif t == "dict":
        for k, v in s["d"].items():
            for x in shrink(v):
                yield {"t": "dict", "d": {**s["d"], k: x}}
    elif t == "tuple" and len(s["p"]) > 1:
        yield {"t": "tuple", "p": s["p"][:-1]}
    elif t not in ("all", "none"):
        yield {"t": "all"}
