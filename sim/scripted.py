"""SCRIPTED randomness regime: the simulator's in-process fake for the PRNG (DESIGN 3.2).

`run_scripted(fn, script, *args)` stages the real function with genjax's own `stage()` and walks
the jaxpr concretely. Every `sample_p` / `adev_sample_p` equation asks `script(site)` for its
outcome; `scan` is unrolled in Python (fresh site ordinals per iteration), `cond` takes the
concrete branch, `while` loops concretely, call-like primitives are entered, everything else is
`primitive.bind` on concrete values. All of genjax (handlers, combinators, modular_vmap batch
rules, kernels, ADEV transform, state) produced the jaxpr; only Seed's key-splitting and the leaf
samplers are stubbed.
"""

from . import world  # first: puts $VERIF_REPO/src in front and loads the JAX adapter before genjax

import numpy as np
import jax
import jax.numpy as jnp
import jax.tree_util as jtu
from jax._src import core as jsc
from jax._src.lax.control_flow.loops import scan_p, while_p
from jax._src.lax.control_flow.conditionals import cond_p

from genjax.pjax import stage, sample_p, adev_sample_p, log_density_p, PPPrimitive

CALL_LIKE = {"jit", "pjit", "closed_call", "core_call", "custom_jvp_call", "custom_vjp_call",
             "custom_vjp_call_jaxpr", "remat", "checkpoint", "remat2", "custom_lin"}


class ScriptExhausted(Exception):
    pass


class Site(dict):
    __getattr__ = dict.get


def _closed(j):
    if isinstance(j, jsc.ClosedJaxpr):
        return j.jaxpr, j.consts
    return j, ()


def _site_args(inner, invals):
    """Unflatten the parameters the site was handed: (args tuple, kwargs dict)."""
    flat = list(invals[inner.get("num_consts", 0):])
    tree = inner.get("in_tree")
    try:
        un = jtu.tree_unflatten(tree, flat)
        if inner.get("yes_kwargs"):
            return tuple(un[0]), dict(un[1])
        return tuple(un), {}
    except Exception:
        return tuple(flat), {}


class Evaluator:
    def __init__(self, script, record_density=False):
        self.script = script
        self.log = []
        self.density_log = []
        self.record_density = record_density
        self.n_eqns = 0

    def eval(self, jaxpr, consts, vals):
        env = {}

        def read(v):
            return v.val if isinstance(v, jsc.Literal) else env[v]

        for v, x in zip(jaxpr.constvars, consts):
            env[v] = x
        for v, x in zip(jaxpr.invars, vals):
            env[v] = x
        for eqn in jaxpr.eqns:
            self.n_eqns += 1
            invals = [read(v) for v in eqn.invars]
            prim, inner = PPPrimitive.unwrap(eqn.primitive)
            if prim is sample_p or prim is adev_sample_p:
                aval = eqn.outvars[0].aval
                a, kw = _site_args(inner, invals)
                site = Site(name=inner.get("name") or eqn.params.get("name"), args=a, kwargs=kw,
                            sample_shape=tuple(inner.get("sample_shape", ())), shape=tuple(aval.shape),
                            dtype=np.dtype(aval.dtype) if not jax.dtypes.issubdtype(aval.dtype, jax.dtypes.prng_key) else aval.dtype,
                            idx=len(self.log), adev=prim is adev_sample_p, inner=inner)
                val = self.script(site)
                val = jnp.asarray(val, dtype=aval.dtype).reshape(aval.shape)
                site["value"] = val
                self.log.append(site)
                outs = [val]
                # sites may have several outputs (event pytrees); only single-array sites are scripted
                if len(eqn.outvars) != 1:
                    raise NotImplementedError("multi-output sample site")
            elif prim is scan_p:
                outs = self._scan(eqn, invals)
            elif prim is cond_p:
                idx = int(invals[0])
                br = eqn.params["branches"][idx]
                j, c = _closed(br)
                outs = self.eval(j, c, invals[1:])
            elif prim is while_p:
                p = eqn.params
                cn, bn = p["cond_nconsts"], p["body_nconsts"]
                cc, bc, st = invals[:cn], invals[cn:cn + bn], invals[cn + bn:]
                cj, cconsts = _closed(p["cond_jaxpr"])
                bj, bconsts = _closed(p["body_jaxpr"])
                while bool(self.eval(cj, cconsts, [*cc, *st])[0]):
                    st = self.eval(bj, bconsts, [*bc, *st])
                outs = list(st)
            elif prim.name in CALL_LIKE and _has_sites_params(eqn.params):
                cj = None
                for key in ("jaxpr", "call_jaxpr", "fun_jaxpr"):
                    if key in eqn.params:
                        cj = eqn.params[key]
                        break
                j, c = _closed(cj)
                outs = self.eval(j, c, invals)
            else:
                if self.record_density and prim is log_density_p:
                    pass
                bp = eqn.primitive.get_bind_params(eqn.params)
                outs = eqn.primitive.bind(*invals, **dict(dict.items(bp)))
                if not eqn.primitive.multiple_results:
                    outs = [outs]
                if self.record_density and prim is log_density_p:
                    a, kw = _site_args(inner, invals)
                    self.density_log.append(Site(name=inner.get("name") or eqn.params.get("name"),
                                                 args=a, kwargs=kw, value=outs[0]))
            for v, x in zip(eqn.outvars, outs):
                if not isinstance(v, jsc.DropVar):
                    env[v] = x
        return [read(v) for v in jaxpr.outvars]

    def _scan(self, eqn, invals):
        p = eqn.params
        if "ft_in" in p:
            c, k, x = p["ft_in"].unpack()
            nc, nk = len(c), len(k)
        else:
            nc, nk = p["num_consts"], p["num_carry"]
        j, jc = _closed(p["jaxpr"])
        cv, kv, xv = list(invals[:nc]), list(invals[nc:nc + nk]), list(invals[nc + nk:])
        length = p["length"]
        idxs = list(range(length))
        if p.get("reverse"):
            idxs = idxs[::-1]
        ys = []
        if not _jaxpr_has_sites(j):
            # site-free loop bodies are executed by JAX itself (fast path, same semantics)
            bp = eqn.primitive.get_bind_params(eqn.params)
            outs = eqn.primitive.bind(*invals, **dict(dict.items(bp)))
            return list(outs)
        for i in idxs:
            o = self.eval(j, jc, [*cv, *kv, *[a[i] for a in xv]])
            kv, y = list(o[:nk]), list(o[nk:])
            ys.append(y)
        if p.get("reverse"):
            ys = ys[::-1]
        n_y = len(eqn.outvars) - nk
        if n_y == 0:
            return [*kv]
        if ys:
            return [*kv, *[jnp.stack(col) for col in zip(*ys)]]
        return [*kv, *[jnp.zeros(v.aval.shape, v.aval.dtype) for v in eqn.outvars[nk:]]]


_SITE_CACHE = {}


def _jaxpr_has_sites(jaxpr):
    k = id(jaxpr)
    if k in _SITE_CACHE and _SITE_CACHE[k][0] is jaxpr:
        return _SITE_CACHE[k][1]
    r = False
    for eqn in jaxpr.eqns:
        prim, _ = PPPrimitive.unwrap(eqn.primitive)
        if prim is sample_p or prim is adev_sample_p:
            r = True
            break
        if _has_sites_params(eqn.params):
            r = True
            break
    _SITE_CACHE[k] = (jaxpr, r)
    if len(_SITE_CACHE) > 4096:
        _SITE_CACHE.clear()
    return r


def _has_sites_params(params):
    for v in params.values():
        if isinstance(v, jsc.ClosedJaxpr):
            if _jaxpr_has_sites(v.jaxpr):
                return True
        elif isinstance(v, jsc.Jaxpr):
            if _jaxpr_has_sites(v):
                return True
        elif isinstance(v, (tuple, list)):
            for w in v:
                if isinstance(w, jsc.ClosedJaxpr) and _jaxpr_has_sites(w.jaxpr):
                    return True
                if isinstance(w, jsc.Jaxpr) and _jaxpr_has_sites(w):
                    return True
    return False


def run_scripted(fn, script, *args, record_density=False, **kwargs):
    """Returns (result pytree, site log). `script` is a callable site -> value, or a list of values
    consumed in order (ScriptExhausted when it runs out)."""
    if not callable(script):
        vals = list(script)

        def script_fn(site, _v=vals):
            if site.idx >= len(_v):
                raise ScriptExhausted(f"site {site.idx} ({site.name}) beyond script of length {len(_v)}")
            return _v[site.idx]
    else:
        script_fn = script
    closed, (flat_args, _, out_tree) = stage(fn)(*args, **kwargs)
    ev = Evaluator(script_fn, record_density)
    out = ev.eval(closed.jaxpr, closed.consts, flat_args)
    res = jtu.tree_unflatten(out_tree(), out)
    if record_density:
        return res, ev.log, ev.density_log
    return res, ev.log


def selfcheck(rng_seed=0):
    """Evaluator self-check (i): on site-free JAX programs with scan(reverse)/cond/while/custom_jvp
    the evaluator must equal jax.jit. Returns list of failures (empty = ok)."""
    fails = []

    @jax.custom_jvp
    def cj(x):
        return jnp.sin(x) * 2.0

    cj.defjvp(lambda p, t: (cj(p[0]), t[0] * 2.0 * jnp.cos(p[0])))

    def f1(x, ys):
        def body(c, y):
            c = jnp.where(c > 0, c * 0.5 + y, c - y)
            return c, (c * 2.0, y + 1)

        c, (a, b) = jax.lax.scan(body, x, ys, reverse=True)
        c2 = jax.lax.cond(c > 0.3, lambda t: t + 1.0, lambda t: t * 3.0, c)
        i, acc = jax.lax.while_loop(lambda s: s[0] < 4, lambda s: (s[0] + 1, s[1] + cj(s[1])), (0, c2))
        z = jax.lax.fori_loop(0, 3, lambda i, s: s + i, acc)
        return z, a, b, jax.jit(lambda t: t ** 2)(c)

    for k in range(3):
        x = jnp.float32(0.3 + k * 0.4 + rng_seed * 0.01)
        ys = jnp.arange(4.0) * 0.3 - 0.2 * k
        want = jax.jit(f1)(x, ys)
        got, log = run_scripted(f1, [], x, ys)
        for w, g in zip(jtu.tree_leaves(want), jtu.tree_leaves(got)):
            if not np.allclose(np.asarray(w), np.asarray(g), rtol=1e-5, atol=1e-6):
                fails.append(("site-free", k, np.asarray(w).tolist(), np.asarray(g).tolist()))
    return fails
