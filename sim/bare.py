"""Bare generative functions as programs: a Distribution, or Vmap / repeat of a Distribution, used
directly through the GFI (not wrapped in an @gen function). "All programs" of C01-C05 includes them,
and their simulate / generate / assess / update / regenerate are separate code (Distribution.*,
Vmap.*) that an @gen program never reaches with a missing constraint: Fn's handlers always hand each
site a concrete value.

Spec: {"d": dist, "mode": "scalar"|"all"|"first"|"int0"|"repeat", "n": lanes}
Case: {"bare": spec, "h": h0, "ops": [...]}; every op is checked against closed formulas over
sim.ref.logpdf (numpy float64): lp(x, h) = sum over lanes of logpdf(d, x_i, params_i(h)).
"""

from . import world  # first: $VERIF_REPO/src + JAX adapter before genjax

import copy
import numpy as np
import jax
import jax.numpy as jnp

from . import progs, ref, gfi
from .gfi import V
from .progs import DISTS


MODES = ["scalar", "all", "first", "int0", "repeat"]


def gen_spec(rng, dists=None):
    d = rng.choice(dists or (progs.CONT + progs.DISC + progs.EVENT))
    mode = rng.choice(MODES)
    if mode == "first" and len(DISTS[d]["params"](np, np.float64(0.0))) == 1:
        mode = "all"
    return {"d": d, "mode": mode, "n": rng.randint(1, 3)}


def build(spec):
    import genjax

    d = getattr(genjax, progs.gj_name(spec["d"]))
    k = len(DISTS[spec["d"]]["params"](np, np.float64(0.0)))
    m, n = spec["mode"], spec["n"]
    if m == "scalar":
        return d
    if m == "repeat":
        return d.repeat(n)
    if m == "all":
        return d.vmap(in_axes=(0,) * k)
    if m == "int0":
        return d.vmap(in_axes=0)
    return d.vmap(in_axes=(0,) + (None,) * (k - 1))


def args_of(spec, h, xp=jnp):
    """Arguments the bare gf is called with for the scalar argument h."""
    P = DISTS[spec["d"]]["params"]
    h = xp.asarray(h, dtype=(np.float64 if xp is np else jnp.float32))
    m, n = spec["mode"], spec["n"]
    if m in ("scalar", "repeat"):
        return tuple(P(xp, h))
    pl = P(xp, progs.lanes(xp, h, n))
    if m in ("all", "int0"):
        return tuple(pl)
    ps = P(xp, h)
    return (pl[0],) + tuple(ps[1:])


def lane_params(spec, h):
    """Per-lane parameter tuples (numpy float64); one entry for the scalar mode."""
    P = DISTS[spec["d"]]["params"]
    h = np.float64(h)
    m, n = spec["mode"], spec["n"]
    if m == "scalar":
        return [tuple(P(np, h))]
    out = []
    for i in range(n):
        if m == "repeat":
            out.append(tuple(P(np, h)))
        elif m in ("all", "int0"):
            out.append(tuple(P(np, h + 0.1 * i)))
        else:
            out.append((P(np, h + 0.1 * i)[0],) + tuple(P(np, h)[1:]))
    return out


def lanes_of_value(spec, x):
    x = np.asarray(x)
    return [x] if spec["mode"] == "scalar" else [x[i] for i in range(spec["n"])]


def lp(spec, x, h):
    return float(sum(ref.logpdf(spec["d"], xi, *p) for xi, p in zip(lanes_of_value(spec, x), lane_params(spec, h))))


def ref_draw(spec, h, rng):
    vs = [ref.sample(spec["d"], rng, *p) for p in lane_params(spec, h)]
    return np.asarray(vs[0]) if spec["mode"] == "scalar" else np.stack(vs)


def _bits(a, b):
    a, b = np.asarray(a), np.asarray(b)
    return a.shape == b.shape and np.array_equal(a.astype(np.float64), b.astype(np.float64))


class Machine:
    def __init__(self, spec, h):
        self.spec, self.h = spec, h
        self.gf = build(spec)
        self.tr = None
        self.x = None
        self.probes = {}
        self.evals = 0

    def probe(self, k):
        self.probes[k] = self.probes.get(k, 0) + 1

    def sig(self, op):
        return dict(op=op, combinators="bare:" + self.spec["mode"])

    def coherent(self, tr, h, what):
        """score == -lp(choices; h) and retval == choices (a distribution returns its draw)."""
        self.evals += 1
        x = np.asarray(tr.get_choices())
        want = lp(self.spec, x, h)
        if not np.isfinite(want):
            return [V("out_of_support", "choices_in_support", f"{what}: choices {world.to_py(x)} have density 0 under h={h}", **self.sig(what))]
        sc = np.asarray(tr.get_score())
        if sc.shape != ():
            return [V("incoherent", "score_is_scalar", f"{what}: score has shape {sc.shape}", **self.sig(what))]
        if not world.close(float(sc), -want, **gfi.TOL):
            return [V("incoherent", "score_is_minus_logp",
                      f"{what}: bare {self.spec['d']}/{self.spec['mode']} trace score {float(sc)} but -log p(choices; args) = {-want} (h={h})",
                      **self.sig(what))]
        if not _bits(tr.get_retval(), x):
            return [V("incoherent", "retval_is_program_value", f"{what}: return value differs from the drawn value", **self.sig(what))]
        return []

    def adopt(self, tr, h):
        self.tr, self.h, self.x = tr, h, np.asarray(tr.get_choices())

    # ------------------------------------------------------------------ ops

    def op_init(self, op):
        spec, h = self.spec, self.h
        a = args_of(spec, h)
        cfg = op.get("cfg", "eager")
        how = op["how"]
        if how == "simulate":
            tr = gfi.execute(cfg, self.gf.simulate, op["key"], *a)
            self.probe("bare_simulate")
        else:
            x = None if how == "generate_none" else ref_draw(spec, h, np.random.default_rng(op["rseed"]))
            tr, w = gfi.execute(cfg, self.gf.generate, op["key"], None if x is None else jnp.asarray(x), *a)
            self.probe("bare_" + how)
            want = 0.0 if x is None else lp(spec, x, h)
            if x is not None and not _bits(tr.get_choices(), x):
                return [V("constraint_lost", "constrained_values_unchanged", "bare generate: the trace does not hold the constrained value",
                          **self.sig("generate"))]
            if not world.close(float(w), want, **gfi.TOL):
                return [V("wrong_weight", "weight_is_log_marginal_of_constraints",
                          f"bare generate ({how}): weight {float(w)} but log p(constraints) = {want}", **self.sig("generate"))]
        vs = self.coherent(tr, h, "init/" + how)
        if not vs:
            self.adopt(tr, h)
        return vs

    def op_assess(self, op):
        spec = self.spec
        x = ref_draw(spec, self.h, np.random.default_rng(op["rseed"]))
        d, r = gfi.execute_det(op.get("cfg", "eager"), self.gf.assess, jnp.asarray(x), *args_of(spec, self.h))
        self.probe("bare_assess")
        self.evals += 1
        want = lp(spec, x, self.h)
        if not world.close(float(d), want, **gfi.TOL):
            return [V("wrong_density", "assess_is_joint_log_density", f"bare assess: {float(d)} but log p = {want}", **self.sig("assess"))]
        if not _bits(r, x):
            return [V("incoherent", "retval_is_program_value", "bare assess: return value differs from the given value", **self.sig("assess"))]
        return []

    def op_update(self, op):
        spec = self.spec
        h_new = self.h if op.get("h") is None else op["h"]
        x_new = ref_draw(spec, h_new, np.random.default_rng(op["rseed"])) if op.get("cons") else None
        final = self.x if x_new is None else x_new
        if not np.isfinite(lp(spec, final, h_new)):
            raise Skip()
        a_new, a_old = args_of(spec, h_new), args_of(spec, self.h)
        cfg = op.get("cfg", "eager")
        xin = None if x_new is None else jnp.asarray(x_new)
        before = world.digest(self.tr)
        tr2, w, discard = gfi.execute_det(cfg, lambda tr, x, *a: self.gf.update(tr, x, *a), self.tr, xin, *a_new)
        self.probe("bare_update")
        self.probe("bare_update_" + ("constrained" if op.get("cons") else "unconstrained") + ("_newargs" if h_new != self.h else ""))
        sig = self.sig("update")
        if world.digest(self.tr) != before:
            return [V("input_mutated", "operation_leaves_its_inputs_unchanged", "bare update modified its input trace", **sig)]
        vs = self.coherent(tr2, h_new, "update")
        if vs:
            return vs
        if not _bits(tr2.get_choices(), final):
            clause = "constrained_hold_new_values" if x_new is not None else "unconstrained_keep_old_values"
            return [V("wrong_choices", clause, f"bare update: choices are {world.to_py(np.asarray(tr2.get_choices()))}, expected "
                      f"{world.to_py(final)}", **sig)]
        want = lp(spec, final, h_new) - lp(spec, self.x, self.h)
        if not world.close(float(w), want, **gfi.TOL):
            return [V("wrong_weight", "weight_is_density_ratio",
                      f"bare {spec['d']}/{spec['mode']} update (constraint={'given' if op.get('cons') else 'None'}, h {self.h}->{h_new}): "
                      f"weight={float(w)} but log p(new;new args) - log p(old;old args) = {want}", **sig)]
        if x_new is not None:
            if discard is None or not _bits(discard, self.x):
                return [V("wrong_discard", "discard_holds_previous_visible_values",
                          f"bare update: discard {world.to_py(None if discard is None else np.asarray(discard))} but the old value was "
                          f"{world.to_py(self.x)}", **sig)]
            if op.get("roundtrip", True):
                self.probe("bare_roundtrip")
                tr3, w3, _ = self.gf.update(tr2, discard, *a_old)
                if not _bits(tr3.get_choices(), self.x):
                    return [V("not_invertible", "update_back_restores_choices", "bare update-back with the discard did not restore the choices", **sig)]
                if not world.close(float(w3), -float(w), **gfi.TOL):
                    return [V("not_invertible", "update_back_negates_weight", f"bare update weight {float(w)}, update-back {float(w3)}", **sig)]
        elif h_new != self.h:
            # nothing overwritten: going back to the old arguments must undo the weight
            self.probe("bare_roundtrip_args_only")
            tr3, w3, _ = self.gf.update(tr2, None, *a_old)
            if not world.close(float(w3), -float(w), **gfi.TOL):
                return [V("not_invertible", "update_back_negates_weight",
                          f"bare update with new arguments only: weight {float(w)}, back to the old arguments {float(w3)}", **sig)]
            vs = self.coherent(tr3, self.h, "update-back")
            if vs:
                return vs
        self.adopt(tr2, h_new)
        return []

    def op_regenerate(self, op):
        from genjax import sel

        spec = self.spec
        h_new = self.h if op.get("h") is None else op["h"]
        if not np.isfinite(lp(spec, self.x, h_new)) and not op["all"]:
            raise Skip()
        s = sel(()) if op["all"] else sel()
        cfg = op.get("cfg", "eager")
        before = world.digest(self.tr)
        tr2, w, discard = gfi.execute(cfg, lambda tr, *a: self.gf.regenerate(tr, s, *a), op["key"], self.tr, *args_of(spec, h_new))
        self.probe("bare_regenerate")
        self.probe("bare_regen_" + ("all" if op["all"] else "none") + ("_newargs" if h_new != self.h else ""))
        sig = self.sig("regenerate")
        if world.digest(self.tr) != before:
            return [V("input_mutated", "operation_leaves_its_inputs_unchanged", "bare regenerate modified its input trace", **sig)]
        vs = self.coherent(tr2, h_new, "regenerate")
        if vs:
            return vs
        x2 = np.asarray(tr2.get_choices())
        if np.asarray(w).shape != ():
            return [V("wrong_weight", "weight_is_scalar", f"bare regenerate: weight has shape {np.asarray(w).shape}", **sig)]
        if op["all"]:
            if DISTS[spec["d"]]["kind"] == "c" and np.any(x2 == self.x):
                return [V("wrong_choices", "selected_freshly_drawn", f"bare regenerate sel(()): value kept {world.to_py(self.x)} -> {world.to_py(x2)}", **sig)]
            if not world.close(float(w), 0.0, rtol=0, atol=1e-5):
                return [V("wrong_weight", "weight_is_mh_ratio", f"bare regenerate with everything selected: weight {float(w)} != 0", **sig)]
            if discard is None or not _bits(discard, self.x):
                return [V("wrong_discard", "discard_holds_old_resampled_values", "bare regenerate: discard is not the old value", **sig)]
        else:
            if not _bits(x2, self.x):
                return [V("wrong_choices", "unselected_bit_identical", "bare regenerate sel(): the value changed", **sig)]
            want = lp(spec, self.x, h_new) - lp(spec, self.x, self.h)
            if not world.close(float(w), want, **gfi.TOL):
                return [V("wrong_weight", "weight_is_mh_ratio",
                          f"bare regenerate sel() (h {self.h}->{h_new}): weight {float(w)} but change in joint log density = {want}", **sig)]
        self.adopt(tr2, h_new)
        return []

    def apply(self, op):
        k = op["op"]
        if k == "init":
            return self.op_init(op)
        if k == "assess":
            return self.op_assess(op)
        if self.tr is None:
            raise Skip()
        if k == "update":
            return self.op_update(op)
        if k == "regenerate":
            return self.op_regenerate(op)
        raise ValueError(k)


class Skip(Exception):
    pass


def gen_case(rng, tier, focus):
    """focus: which operations dominate ('simulate', 'generate', 'update', 'regenerate', 'mixed')."""
    spec = gen_spec(rng)
    h = round(rng.uniform(-1.2, 1.2), 3)
    init = {"op": "init", "how": rng.choice({"simulate": ["simulate"], "generate": ["generate", "generate_none", "generate"]}.get(
        focus, ["simulate", "generate", "generate_none"])), "key": rng.randint(0, 2**30), "rseed": rng.randint(0, 2**30),
        "cfg": rng.choice(["eager", "eager", "jit", "vmap"])}
    ops = [init]
    n = rng.randint(2, 5) if tier == "quick" else rng.randint(3, 10)
    kinds = {"simulate": ["assess", "init"], "generate": ["init", "assess"], "update": ["update", "update", "update", "regenerate"],
             "regenerate": ["regenerate", "regenerate", "regenerate", "update"], "mixed": ["update", "regenerate", "assess", "init"]}[focus]
    for _ in range(n):
        k = rng.choice(kinds)
        key = rng.randint(0, 2**30)
        hh = round(rng.uniform(-1.2, 1.2), 3) if rng.random() < 0.6 else None
        if k == "init":
            ops.append({**init, "how": rng.choice(["simulate", "generate", "generate_none"]) if focus != "simulate" else "simulate",
                        "key": key, "rseed": key + 1, "cfg": rng.choice(["eager", "jit", "vmap", "jitvmap"])})
        elif k == "assess":
            ops.append({"op": "assess", "rseed": key, "cfg": rng.choice(["eager", "jit"])})
        elif k == "update":
            ops.append({"op": "update", "h": hh, "cons": rng.random() < 0.5, "rseed": key, "cfg": rng.choice(["eager", "eager", "jit"]),
                        "roundtrip": True})
        else:
            ops.append({"op": "regenerate", "all": rng.random() < 0.5, "h": hh, "key": key, "cfg": rng.choice(["eager", "eager", "jit"])})
    return {"bare": spec, "h": h, "ops": ops}


def run_case(case):
    m = Machine(case["bare"], case["h"])
    viol, steps, hist = [], 0, []
    for op in case["ops"]:
        steps += 1
        try:
            viol += m.apply(op)
            hist.append(op["op"] + ":" + str(op.get("how", op.get("cons", op.get("all", "")))))
        except Skip:
            hist.append("skip")
            m.probe("skipped")
        except Exception as e:
            viol.append(gfi.exc_violation(e, op["op"], cfg=op.get("cfg"), combinators="bare:" + case["bare"]["mode"]))
        if viol:
            break
    sp = case["bare"]
    return {"violations": viol, "steps": steps, "faults": {}, "probes": m.probes, "evals": m.evals,
            "key": "bare:%s:%s:%d|%s" % (sp["d"], sp["mode"], sp["n"], ",".join(hist)), "nontrivial": sp["mode"] != "scalar"}


def shrink(case):
    ops = case["ops"]
    for i in range(len(ops)):
        if len(ops) > 1 and i > 0:
            c = copy.deepcopy(case)
            del c["ops"][i]
            yield c
    sp = case["bare"]
    if sp["n"] > 1:
        c = copy.deepcopy(case)
        c["bare"]["n"] = sp["n"] - 1
        yield c
    if sp["mode"] != "scalar":
        c = copy.deepcopy(case)
        c["bare"]["mode"] = "scalar"
        yield c
    if sp["d"] != "normal" and DISTS[sp["d"]]["kind"] == "c" and not DISTS[sp["d"]].get("event"):
        c = copy.deepcopy(case)
        c["bare"]["d"] = "normal"
        yield c
    for i, o in enumerate(ops):
        if o.get("cfg") not in (None, "eager"):
            c = copy.deepcopy(case)
            c["ops"][i]["cfg"] = "eager"
            yield c
        if o.get("h") is not None:
            c = copy.deepcopy(case)
            c["ops"][i]["h"] = None
            yield c
