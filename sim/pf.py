"""PF: a tiny language of *probabilistic plain functions* (not @gen models), used by the
checks on the seed / modular_vmap / lowering seams (C06, C07, C08, C14).

A PF program is a JSON list of statements threaded by a scalar float accumulator `acc`
(contractive: acc' = 0.5*acc + 0.3*tanh(draw)), so every site's parameters depend on the
draws before it. Statements:
  {"k":"site","d":<dist>,"mode":"sample"|"call","ss":[..]|None}
  {"k":"scan","n":n,"body":[...]}            lax.scan, xs = 0.1*arange(n)
  {"k":"cond","thr":t,"a":[...],"b":[...]}   lax.cond(acc>thr); branches structurally equal
  {"k":"mvmap","n":n,"axes":"0"|"none","body":[...]}   modular_vmap over lanes
  {"k":"nseed","key":K,"body":[...]}         nested seed with its own explicit key
  {"k":"gen","n":..}                         a small @gen model simulated in-line (trace choices emitted)
The built function returns (acc, outs) where outs is the nested list of every draw.
"""

from . import world  # first: puts $VERIF_REPO/src in front and loads the JAX adapter before genjax

import jax
import jax.numpy as jnp

import genjax
from genjax import pjax as gpjax
from genjax.core import tfp_distribution

from . import world

REAL_CONT = ["normal", "uniform", "exponential", "gamma", "beta", "laplace"]
REAL_DISC = ["flip", "categorical", "poisson"]


def _sig(a):
    return jax.nn.sigmoid(a)


# parameters for each real distribution as a function of the accumulator
PARAMS = {
    "normal": lambda a: (a, 1.0),
    "uniform": lambda a: (a - 1.0, a + 1.0),
    "exponential": lambda a: (0.5 + _sig(a),),
    "gamma": lambda a: (1.0 + _sig(a), 1.5),
    "beta": lambda a: (1.0 + _sig(a), 2.0),
    "laplace": lambda a: (a, 0.7),
    "flip": lambda a: (jnp.clip(_sig(a), 0.05, 0.95),),
    "categorical": lambda a: (jnp.stack([0.0 * a, jnp.clip(a, -2, 2), -jnp.clip(a, -2, 2)]),),
    "poisson": lambda a: (1.0 + _sig(a),),
    "normal0": lambda a: (0.0 * a, 1.0),  # parameters independent of the history (independence tests)
    # tracers
    "keyprobe": lambda a: (a,),
    "echo": lambda a: (a,),
}


# alternative keyword parameterisations (same shapes / dtypes) of distributions: (kwargs builder A, kwargs builder B)
KW_ALT = {
    "bernoulli": (lambda a: {"probs": jnp.clip(_sig(a), 0.05, 0.95)}, lambda a: {"logits": jnp.clip(a, -2.0, 2.0)}),
    "poisson": (lambda a: {"rate": 1.0 + _sig(a)}, lambda a: {"log_rate": 0.3 * jnp.tanh(a)}),
    "normal": (lambda a: {"loc": a, "scale": 1.0 + 0.0 * a}, lambda a: {"scale": 1.0 + 0.0 * a, "loc": a}),
    "exponential": (lambda a: {"rate": 0.5 + _sig(a)}, lambda a: {"rate": 0.5 + _sig(a)}),
}


# ------------------------------------------------------------------ tracer distributions


class _KeyProbe:
    """value = key data of the key the site received: shape sample_shape + batch + (2,) uint32."""

    def __init__(self, loc):
        self.loc = jnp.asarray(loc)

    def sample(self, seed=None, sample_shape=()):
        shape = tuple(sample_shape) + tuple(self.loc.shape)
        n = 1
        for s in shape:
            n *= int(s)
        ks = jax.random.split(seed, max(n, 1))
        data = jax.random.key_data(ks)[:n] if n else jax.random.key_data(ks)[:0]
        return data.reshape(shape + (2,))

    def log_prob(self, v):
        v = jnp.asarray(v)
        return 0.0 * jnp.sum(v.astype(jnp.float32), axis=-1) + 0.0 * self.loc


class _Echo:
    """value = loc + U(key) in [loc, loc+1): reveals the parameter cell it was paired with and a fingerprint."""

    def __init__(self, loc):
        self.loc = jnp.asarray(loc, dtype=jnp.float32)

    def sample(self, seed=None, sample_shape=()):
        shape = tuple(sample_shape) + tuple(self.loc.shape)
        u = jax.random.uniform(seed, shape, dtype=jnp.float32)
        return self.loc + u

    def log_prob(self, v):
        return 0.0 * (jnp.asarray(v) - self.loc)


keyprobe = tfp_distribution(lambda loc: _KeyProbe(loc), name="KeyProbe")
echo = tfp_distribution(lambda loc: _Echo(loc), name="Echo")


def dist_table():
    t = {n: getattr(genjax, n) for n in REAL_CONT + REAL_DISC}
    t["normal0"] = genjax.normal
    t["keyprobe"] = keyprobe
    t["echo"] = echo
    return t


# ------------------------------------------------------------------ generation


def gen_pf(rng, depth=2, dists=None, max_len=3, allow=("site", "scan", "cond", "mvmap", "nseed", "gen"),
           _top=True, in_mv=False, nseed_in_loops=True, _in_loop=False):
    """in_mv: inside a modular_vmap body. Constructs whose *layout* under modular_vmap is C08's
    business (sample_shape sites, repeat inside lanes, event-shaped parameters with density sites)
    are not generated there, so that C06/C07 cases are functions the interpreters accept."""
    dists = dists or (REAL_CONT + REAL_DISC)
    n = rng.randint(1, max_len)
    out = []
    for _ in range(n):
        kinds = ["site", "site"]
        if depth > 0:
            kinds += [k for k in allow if k != "site" and not (k == "nseed" and _in_loop and not nseed_in_loops)]
        k = rng.choice(kinds)
        if k == "site":
            d = rng.choice(dists)
            st = {"k": "site", "d": d, "mode": rng.choice(["sample", "sample", "call"])}
            if rng.random() < 0.35 and any(x in dists for x in ("normal", "poisson", "exponential")) and dists is not None \
                    and set(dists) >= set(REAL_CONT):
                # a site written with keyword parameters (one of two alternative parameterisations)
                st = {"k": "site", "d": rng.choice(["bernoulli", "bernoulli", "poisson", "poisson", "normal", "exponential"]), "mode": "kw",
                      "alt": rng.randint(0, 1)}
            if in_mv and d == "categorical":
                st["mode"] = "sample"
            if rng.random() < 0.2 and not in_mv:
                st["ss"] = [rng.randint(1, 3)]
                st["mode"] = "sample"
            out.append(st)
        elif k == "scan":
            out.append({"k": "scan", "n": rng.randint(1, 4),
                        "body": gen_pf(rng, depth - 1, dists, 2, allow, False, in_mv, nseed_in_loops, True)})
        elif k == "cond":
            a = gen_pf(rng, depth - 1, dists, 2, [x for x in allow if x not in ("nseed",)], False, in_mv, nseed_in_loops, _in_loop)
            b = _vary(rng, a, dists)
            out.append({"k": "cond", "thr": round(rng.uniform(-0.3, 0.3), 2), "a": a, "b": b})
        elif k == "mvmap":
            out.append({"k": "mvmap", "n": rng.randint(2, 4), "axes": rng.choice(["0", "0", "none"]),
                        "body": gen_pf(rng, depth - 1, dists, 2, [x for x in allow if x != "nseed"], False, True)})
        elif k == "nseed":
            out.append({"k": "nseed", "key": rng.randint(1000, 10**6),
                        "body": gen_pf(rng, depth - 1, dists, 2, allow, False, in_mv, nseed_in_loops, _in_loop)})
        elif k == "gen":
            gd = rng.choice([d for d in dists if not (in_mv and d == "categorical")] or dists)
            out.append({"k": "gen", "n": rng.randint(1, 3), "d": gd,
                        "vm": 0 if in_mv else rng.choice([0, 0, 2, 3])})
    return out


def _same_family(d):
    if d in ("keyprobe", "echo"):
        return [d]
    if d in REAL_CONT:
        return REAL_CONT
    return [d]  # discrete dists have different dtypes/shapes: keep


def _vary(rng, body, dists):
    """Structurally identical copy (same output shapes/dtypes) with other distributions where possible."""
    out = []
    for st in body:
        st = dict(st)
        if st["k"] == "site":
            cands = [d for d in _same_family(st["d"]) if d in dists or d == st["d"]]
            st["d"] = rng.choice(cands)
        elif st["k"] in ("scan", "mvmap", "nseed"):
            st["body"] = _vary(rng, st["body"], dists)
        elif st["k"] == "cond":
            st["a"] = _vary(rng, st["a"], dists)
            st["b"] = _vary(rng, st["b"], dists)
        elif st["k"] == "gen":
            cands = [d for d in _same_family(st["d"]) if d in dists or d == st["d"]]
            st["d"] = rng.choice(cands)
        out.append(st)
    return out


def shape_key(body):
    def k(st):
        if st["k"] == "site":
            return "s:%s:%s:%s" % (st["d"], st["mode"][0], st.get("ss"))
        if st["k"] == "gen":
            return "g:%s:%d:%d" % (st["d"], st["n"], st["vm"])
        if st["k"] == "cond":
            return "c(%s|%s)" % (shape_key(st["a"]), shape_key(st["b"]))
        return "%s%s(%s)" % (st["k"], st.get("n", ""), shape_key(st["body"]))

    return ",".join(k(s) for s in body)


def count_sites(body):
    n = 0
    for st in body:
        if st["k"] == "site":
            n += 1
        elif st["k"] == "gen":
            n += st["n"]
        elif st["k"] == "cond":
            n += count_sites(st["a"]) + count_sites(st["b"])
        else:
            n += count_sites(st["body"])
    return n


def has_kind(body, kind):
    for st in body:
        if st["k"] == kind:
            return True
        for sub in ("body", "a", "b"):
            if sub in st and has_kind(st[sub], kind):
                return True
    return False


# ------------------------------------------------------------------ building


def _fold(acc, v):
    v = jnp.asarray(v)
    if v.dtype == jnp.uint32:  # keyprobe: do not let huge ints into acc; keep a weak dependence
        r = (jnp.sum(v % 7).astype(jnp.float32)) / 100.0
    else:
        r = jnp.tanh(jnp.mean(v.astype(jnp.float32)))
    return 0.5 * acc + 0.3 * r


def _gen_model(st, table):
    """A small @gen model: n chained sites, optionally one vectorised sub-site."""
    d = table[st["d"]]
    pr = PARAMS[st["d"]]
    n, vm = st["n"], st["vm"]

    @genjax.gen
    def model(a):
        for i in range(n):
            v = d(*pr(a)) @ f"s{i}"
            a = _fold(a, v)
        if vm:
            vs = d.repeat(vm)(*pr(a)) @ "rep"
            a = _fold(a, vs)
        return a

    return model


def build_body(body, table, fault=None):
    """Returns fn(acc) -> (acc, outs). `fault` = {"at": k} raises InjectedFault when the k-th
    statement (in Python execution order) is reached."""
    counter = {"n": 0}

    def run(stmts, acc):
        outs = []
        for st in stmts:
            if fault is not None:
                if counter["n"] == fault["at"]:
                    counter["n"] += 1
                    raise world.InjectedFault("injected at statement %d" % fault["at"])
                counter["n"] += 1
            k = st["k"]
            if k == "site":
                d = table.get(st["d"])
                p = PARAMS[st["d"]](acc) if st["mode"] != "kw" else None
                if st["mode"] == "kw":
                    d = getattr(genjax, st["d"])
                    v = d.sample(**KW_ALT[st["d"]][st.get("alt", 0)](acc))
                elif st["mode"] == "call":
                    v = d(*p)  # GFI.__call__ at top level
                elif st.get("ss"):
                    v = d.sample(*p, sample_shape=tuple(st["ss"]))
                else:
                    v = d.sample(*p)
                outs.append(v)
                acc = _fold(acc, v)
            elif k == "gen":
                m = _gen_model(st, table)
                tr = m.simulate(acc)
                outs.append(tr.get_choices())
                outs.append(tr.get_score())
                acc = tr.get_retval()
            elif k == "scan":
                def step(c, x, _b=st["body"]):
                    c2, o = run(_b, c + x)
                    return c2, o

                acc, o = jax.lax.scan(step, acc, 0.1 * jnp.arange(st["n"], dtype=jnp.float32))
                outs.append(o)
            elif k == "cond":
                fa = lambda a, _b=st["a"]: run(_b, a)
                fb = lambda a, _b=st["b"]: run(_b, a)
                acc, o = jax.lax.cond(acc > st["thr"], fa, fb, acc)
                outs.append(o)
            elif k == "mvmap":
                n = st["n"]
                if st["axes"] == "0":
                    lanes = acc + 0.1 * jnp.arange(n, dtype=jnp.float32)
                    a2, o = gpjax.modular_vmap(lambda a, _b=st["body"]: run(_b, a), in_axes=0)(lanes)
                else:
                    a2, o = gpjax.modular_vmap(lambda a, _b=st["body"]: run(_b, a), in_axes=None,
                                               axis_size=n)(acc)
                outs.append(o)
                acc = jnp.mean(a2)
            elif k == "nseed":
                a2, o = gpjax.seed(lambda a, _b=st["body"]: run(_b, a))(jax.random.key(st["key"]), acc)
                outs.append(o)
                acc = a2
            else:
                raise ValueError(k)
        return acc, outs

    def fn(acc):
        counter["n"] = 0
        return run(body, jnp.asarray(acc, dtype=jnp.float32))

    return fn


def build_pf(body, table=None, kwargs_form=False, fault=None):
    table = table or dist_table()
    f = build_body(body, table, fault)
    if kwargs_form:
        def g(acc, *, shift=0.0):
            return f(acc + shift)

        return g
    return f
