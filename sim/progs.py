"""Program generator and builder for the modelling language (DESIGN 3.6).

A *model* is a JSON AST: {"blocks": [...]} threaded by one scalar float `h` (contractive), so
every site's parameters depend on the choices before it. The same AST is interpreted twice:
`build(model)` makes real genjax objects (@gen functions, .vmap/.repeat, Scan, Cond, kwargs,
event-shaped sites); `sim.ref` evaluates it in numpy float64 with Python loops.

Blocks (h -> h):
  {"k":"site","a":addr,"d":dist,"kw":bool|"alt"}   ("alt": the other keyword parameterisation, e.g. bernoulli(probs=))
  {"k":"call","a":addr,"m":model[,"g":gain]}   (g present: callee invoked as sub(h, gain=g), default gain=1.0)
  {"k":"vsite","a":addr,"d":dist,"n":n,"mode":"all"|"first"|"int0"|"repeat"}
  {"k":"vcall","a":addr,"m":model,"n":n,"mode":"axes"|"int0"|"repeat"}
  {"k":"scan","a":addr,"m":model,"n":T}          step(carry, x): h = carry + x; blocks; return (h, 0.5*h)
  {"k":"cond","a":addr,"ma":model,"mb":model,"thr":t}    Cond(ma, mb)(h > thr, h)
"""

import numpy as np

# ------------------------------------------------------------------ distributions of the language
# params(xp, h) -> tuple of positional parameters (xp is numpy or jax.numpy), names for the kwargs form


def _sig(xp, h):
    return 1.0 / (1.0 + xp.exp(-h))


def _clip(xp, v, lo, hi):
    return xp.clip(v, lo, hi)


DISTS = {
    "normal": dict(params=lambda xp, h: (h, 1.0 + 0.0 * h), names=("loc", "scale"), kind="c"),
    "normal_s": dict(params=lambda xp, h: (0.5 * h, 0.5 + _sig(xp, h)), names=("loc", "scale"), kind="c", gj="normal"),
    "uniform": dict(params=lambda xp, h: (h - 1.0, h + 2.0), names=("low", "high"), kind="c"),
    "exponential": dict(params=lambda xp, h: (0.5 + _sig(xp, h),), names=("rate",), kind="c"),
    "gamma": dict(params=lambda xp, h: (1.0 + _sig(xp, h), 1.5 + 0.0 * h), names=("concentration", "rate"), kind="c"),
    "beta": dict(params=lambda xp, h: (1.0 + _sig(xp, h), 2.0 + 0.0 * h), names=("concentration1", "concentration0"), kind="c"),
    "laplace": dict(params=lambda xp, h: (h, 0.7 + 0.0 * h), names=("loc", "scale"), kind="c"),
    "flip": dict(params=lambda xp, h: (_clip(xp, _sig(xp, h), 0.05, 0.95),), names=None, kind="d", support=[False, True]),
    "bernoulli": dict(params=lambda xp, h: (_clip(xp, h, -2.0, 2.0),), names=("logits",), kind="d", support=[0, 1]),
    "categorical": dict(params=lambda xp, h: (xp.stack([0.0 * h, _clip(xp, h, -2.0, 2.0), -_clip(xp, h, -2.0, 2.0)], axis=-1),),
                        names=None, kind="d", support=[0, 1, 2], pevent=(1,)),
    "poisson": dict(params=lambda xp, h: (1.0 + _sig(xp, h),), names=("rate",), kind="dinf"),
    "mvn": dict(params=lambda xp, h: (xp.stack([h, -0.5 * h], axis=-1),
                                      _mvn_cov(xp, h)),
                names=("loc", "covariance_matrix"), kind="c", event=(2,), pevent=(1, 2), gj="multivariate_normal"),
    "dirichlet": dict(params=lambda xp, h: (xp.stack([1.0 + _sig(xp, h), 1.5 + 0.0 * h, 2.0 + 0.0 * h], axis=-1),),
                      names=("concentration",), kind="c", event=(3,), pevent=(1,)),
}

CONT = ["normal", "normal_s", "uniform", "exponential", "gamma", "beta", "laplace"]
CONT_REAL_LINE = ["normal", "normal_s", "laplace"]  # support = R (safe for gradient moves)
DISC = ["flip", "bernoulli", "categorical"]
EVENT = ["mvn", "dirichlet"]


# alternative keyword parameterisations of the same distribution (same shapes and dtypes): block field "kw": "alt"
KW_ALT = {
    "bernoulli": lambda xp, p: {"probs": 1.0 / (1.0 + xp.exp(-p[0]))},
    "normal": lambda xp, p: {"scale": p[1], "loc": p[0]},
    "beta": lambda xp, p: {"concentration0": p[1], "concentration1": p[0]},
}


def _mvn_cov(xp, h):
    s = 0.5 + _sig(xp, h)
    base = xp.asarray([[1.0, 0.3], [0.3, 0.8]])
    return base * xp.expand_dims(xp.expand_dims(s, -1), -1)


class WithStatic:
    """View of a generative function called with the static argument alt=const(True): the same
    function object then visits the additional addresses of model["alt_blocks"]."""

    def __init__(self, gf):
        from genjax import const

        self.gf, self.kw = gf, {"alt": const(True)}

    def simulate(self, h):
        return self.gf.simulate(h, **self.kw)

    def generate(self, x, h):
        return self.gf.generate(x, h, **self.kw)

    def assess(self, x, h):
        return self.gf.assess(x, h, **self.kw)

    def update(self, tr, x, h):
        return self.gf.update(tr, x, h, **self.kw)

    def regenerate(self, tr, s, h):
        return self.gf.regenerate(tr, s, h, **self.kw)


def alt_model(model):
    """The program that runs when alt is set: the blocks followed by the alt blocks."""
    return {"blocks": list(model["blocks"]) + list(model.get("alt_blocks", []))}


def gj_name(d):
    return DISTS[d].get("gj", d)


# ------------------------------------------------------------------ generation


class Gen:
    def __init__(self, rng, dists=None, depth=2, max_blocks=3, kinds=None, shared_cond=None):
        self.rng = rng
        self.dists = dists or (CONT + DISC + EVENT)
        self.kinds = kinds or ["site", "call", "vsite", "vcall", "scan", "cond"]
        self.max_blocks = max_blocks
        self.depth = depth
        self.shared_cond = shared_cond

    def model(self, depth=None, prefix="", nmax=None, in_vec=False):
        depth = self.depth if depth is None else depth
        rng = self.rng
        n = rng.randint(1, nmax or self.max_blocks)
        blocks = []
        for i in range(n):
            a = f"{prefix}{'abcdefgh'[i]}"
            kinds = ["site", "site"]
            if depth > 0:
                kinds += [k for k in self.kinds if k != "site"]
            elif "vsite" in self.kinds:
                kinds += ["vsite"]
            k = rng.choice(kinds)
            if k == "site":
                d = rng.choice(self.dists)
                kw = bool(DISTS[d]["names"]) and rng.random() < 0.25
                if d in KW_ALT and rng.random() < 0.3:
                    kw = "alt"
                blocks.append({"k": "site", "a": a, "d": d, "kw": kw})
                if kw and rng.random() < 0.5:
                    # both spellings of one distribution in one program (positional first or second)
                    twin = {"k": "site", "a": a + "p", "d": d, "kw": False}
                    if rng.random() < 0.5:
                        blocks.append(twin)
                    else:
                        blocks.insert(len(blocks) - 1, twin)
            elif k == "call":
                blk = {"k": "call", "a": a, "m": self.model(depth - 1, "", 2, in_vec)}
                if rng.random() < 0.35:
                    # callee invoked with a keyword argument that differs from its default (gain=1.0)
                    blk["g"] = round(rng.uniform(0.6, 1.4), 2)
                blocks.append(blk)
            elif k == "vsite":
                d = rng.choice([x for x in self.dists])
                mode = rng.choice(["all", "first", "int0", "repeat"])
                if len(DISTS[d]["params"](np, np.float64(0.0))) == 1 and mode == "first":
                    mode = "all"
                blocks.append({"k": "vsite", "a": a, "d": d, "n": rng.randint(1, 3), "mode": mode})
            elif k == "vcall":
                blocks.append({"k": "vcall", "a": a, "m": self.model(depth - 1, "", 2, True),
                               "n": rng.randint(1, 3), "mode": rng.choice(["axes", "int0", "repeat"])})
            elif k == "scan":
                blocks.append({"k": "scan", "a": a, "m": self.model(depth - 1, "", 2, in_vec),
                               "n": rng.randint(1, 3)})
            elif k == "cond":
                ma = self.model(depth - 1, "", 2, in_vec)
                shared = self.shared_cond if self.shared_cond is not None else rng.random() < 0.6
                mb = self._variant(ma) if shared else self.model(depth - 1, "z", 2, in_vec)
                blocks.append({"k": "cond", "a": a, "ma": ma, "mb": mb,
                               "thr": round(rng.uniform(-0.4, 0.4), 2), "shared": shared})
        return {"blocks": blocks}

    def _variant(self, m):
        """Same addresses, shapes and dtypes; different distributions/parameters where possible."""
        rng = self.rng
        out = []
        for b in m["blocks"]:
            b = dict(b)
            if b["k"] in ("site", "vsite"):
                fam = _family(b["d"])
                cands = [d for d in fam if d in self.dists] or [b["d"]]
                b["d"] = rng.choice(cands)
                if b.get("kw") == "alt" and b["d"] not in KW_ALT:
                    b["kw"] = bool(DISTS[b["d"]]["names"])
                if "kw" in b and b["kw"] is True and not DISTS[b["d"]]["names"]:
                    b["kw"] = False
                if b["k"] == "vsite" and b["mode"] == "first" and len(DISTS[b["d"]]["params"](np, np.float64(0.0))) == 1:
                    b["mode"] = "all"
            for sub in ("m", "ma", "mb"):
                if sub in b:
                    b[sub] = self._variant(b[sub])
            out.append(b)
        return {"blocks": out}


SUPPORT_CLASSES = [["normal", "normal_s", "laplace"], ["exponential", "gamma"], ["beta"], ["uniform"]]


def _family(d):
    """Distributions that may replace d in the other branch of a Cond with shared addresses: same
    dtype/shape AND same support. (A value carried across a branch switch into a branch whose support
    excludes it has density 0; TFP's log_prob does not check supports and returns the analytic
    continuation, e.g. Exponential.log_prob(-1) is finite - TFP internals are in the trusted base, so
    such cases are not generated.)"""
    for cls in SUPPORT_CLASSES:
        if d in cls:
            return cls
    return [d]


def gen_model(rng, **kw):
    return Gen(rng, **kw).model()


def shape_key(m):
    def k(b):
        if b["k"] == "site":
            return "s:%s%s" % (b["d"], "a" if b.get("kw") == "alt" else "k" if b.get("kw") else "")
        if b["k"] == "vsite":
            return "vs:%s:%d:%s" % (b["d"], b["n"], b["mode"])
        if b["k"] == "call":
            return "call%s(%s)" % ("k" if "g" in b else "", shape_key(b["m"]))
        if b["k"] == "vcall":
            return "vc%d%s(%s)" % (b["n"], b["mode"][0], shape_key(b["m"]))
        if b["k"] == "scan":
            return "scan%d(%s)" % (b["n"], shape_key(b["m"]))
        if b["k"] == "cond":
            return "cond%s(%s|%s)" % ("S" if b.get("shared") else "D", shape_key(b["ma"]), shape_key(b["mb"]))

    return ",".join(k(b) for b in m["blocks"])


def walk(m, fn, path=()):
    """fn(block, path) for every block, depth first."""
    for b in m["blocks"]:
        fn(b, path + (b["a"],))
        for sub in ("m", "ma", "mb"):
            if sub in b:
                walk(b[sub], fn, path + (b["a"],))


def has_kind(m, kind):
    found = []
    walk(m, lambda b, p: found.append(1) if b["k"] == kind else None)
    return bool(found)


def combinators(m):
    ks = set()
    walk(m, lambda b, p: ks.add(b["k"]))
    return sorted(ks - {"site"})


def n_blocks(m):
    c = []
    walk(m, lambda b, p: c.append(1))
    return len(c)


# ------------------------------------------------------------------ building real genjax objects


def fold(xp, h, x):
    x = xp.asarray(x)
    xf = x.astype(xp.float32 if xp is not np else np.float64)
    return 0.5 * h + 0.3 * xp.tanh(xp.mean(xf))


def lanes(xp, h, n):
    return h + 0.1 * xp.arange(n, dtype=(np.float64 if xp is np else xp.float32))


def scan_xs(xp, n):
    return 0.1 * xp.arange(n, dtype=(np.float64 if xp is np else xp.float32)) - 0.05


def build(model, fault=None, kind="top"):
    """Returns a genjax generative function. kind: 'top' -> f(h); 'step' -> f(carry, x) -> (h, 0.5*h).
    `fault` = {"at": k, "n": 0}: the k-th block reached (Python execution order across the whole
    program) raises InjectedFault - an exception in the middle of a model body. Sub-models are built
    once, at construction time (stable identity, as module-level @gen functions have)."""
    import jax.numpy as jnp
    import genjax
    from genjax import gen, Scan, Cond, const
    from . import world

    counter = fault

    def dist_obj(d):
        return getattr(genjax, gj_name(d))

    subs = {}
    for i, b in enumerate(model["blocks"]):
        if b["k"] in ("call", "vcall"):
            subs[i] = build(b["m"], fault=counter)
        elif b["k"] == "scan":
            subs[i] = Scan(build(b["m"], fault=counter, kind="step"), length=const(b["n"]))
        elif b["k"] == "cond":
            subs[i] = Cond(build(b["ma"], fault=counter), build(b["mb"], fault=counter))
        if b["k"] == "vcall":
            n = b["n"]
            if b["mode"] == "repeat":
                subs[i] = subs[i].repeat(n)
            elif b["mode"] == "int0":
                subs[i] = subs[i].vmap(in_axes=0)
            else:
                subs[i] = subs[i].vmap(in_axes=(0,))

    def run_blocks(blocks, h):
        for i, b in enumerate(blocks):
            if counter is not None:
                if counter.get("n", 0) == counter["at"]:
                    counter["n"] = counter.get("n", 0) + 1
                    raise world.InjectedFault("injected at block %d" % counter["at"])
                counter["n"] = counter.get("n", 0) + 1
            k = b["k"]
            if k == "site":
                spec = DISTS[b["d"]]
                p = spec["params"](jnp, h)
                if b.get("kw") == "alt":
                    x = dist_obj(b["d"])(**KW_ALT[b["d"]](jnp, p)) @ b["a"]
                elif b.get("kw"):
                    x = dist_obj(b["d"])(**dict(zip(spec["names"], p))) @ b["a"]
                else:
                    x = dist_obj(b["d"])(*p) @ b["a"]
                h = fold(jnp, h, x)
            elif k == "call":
                if "g" in b:
                    h = subs[i](h, gain=b["g"]) @ b["a"]
                else:
                    h = subs[i](h) @ b["a"]
            elif k == "vsite":
                spec = DISTS[b["d"]]
                d = dist_obj(b["d"])
                n = b["n"]
                if b["mode"] == "repeat":
                    xs = d.repeat(n)(*spec["params"](jnp, h)) @ b["a"]
                else:
                    hs = lanes(jnp, h, n)
                    pl = spec["params"](jnp, hs)
                    if b["mode"] == "all":
                        xs = d.vmap(in_axes=tuple(0 for _ in pl))(*pl) @ b["a"]
                    elif b["mode"] == "int0":
                        xs = d.vmap(in_axes=0)(*pl) @ b["a"]
                    else:  # first
                        ps = spec["params"](jnp, h)
                        xs = d.vmap(in_axes=(0,) + (None,) * (len(pl) - 1))(pl[0], *ps[1:]) @ b["a"]
                h = fold(jnp, h, xs)
            elif k == "vcall":
                if b["mode"] == "repeat":
                    rs = subs[i](h) @ b["a"]
                else:
                    rs = subs[i](lanes(jnp, h, b["n"])) @ b["a"]
                h = fold(jnp, h, rs)
            elif k == "scan":
                final, outs = subs[i](h, scan_xs(jnp, b["n"])) @ b["a"]
                h = 0.5 * final + 0.2 * jnp.tanh(jnp.mean(outs))
            elif k == "cond":
                h = subs[i](h > b["thr"], h) @ b["a"]
            else:
                raise ValueError(k)
        return h

    if kind == "top":
        @gen
        def model_fn(h, gain=1.0, alt=None):
            # gain: keyword parameter with a default (x * 1.0 is exact, so callers that omit it see h itself)
            # alt: static argument (a Const): Python control flow that changes which addresses are visited
            h = run_blocks(model["blocks"], jnp.asarray(h, dtype=jnp.float32) * gain)
            if alt is not None and alt.value:
                h = run_blocks(model.get("alt_blocks", []), h)
            return h

        return model_fn

    @gen
    def step_fn(carry, x):
        h = run_blocks(model["blocks"], carry + x)
        return h, 0.5 * h

    return step_fn
