"""The trace state machine shared by C03, C04, C05 (DESIGN 4): a client owns a generated program
and one live trace; update / regenerate / MCMC kernels / lane indexing / resampling / jit round
trips are transitions; PPL-ref's reference trace ("a dict and the args") is advanced alongside and
every transition is checked against it."""

from . import world  # first: puts $VERIF_REPO/src in front and loads the JAX adapter before genjax

import copy
import numpy as np
import jax
import jax.numpy as jnp
import jax.tree_util as jtu

from genjax import pjax as gpjax

from . import world, progs, ref, gfi, selections
from .gfi import V
from .scripted import run_scripted


class Skip(Exception):
    """The drawn operation is not applicable in the current state (counted, not an error)."""


class Stop(Exception):
    """The history left the support (a legal move made the trace's density zero, e.g. a resampled
    parent pushed a child out of a parameter-dependent support): later weights would be inf - inf.
    The run ends here (counted)."""


def _eq_bits(a, b):
    a, b = np.asarray(a), np.asarray(b)
    return a.shape == b.shape and np.array_equal(a.astype(np.float64), b.astype(np.float64))


class Client:
    def __init__(self, model, h):
        self.model = model
        self.gf = progs.build(model)
        self.h = h
        self.tr = None
        self.ch = None  # reference trace: visible choices (numpy)
        self.paths = [tuple(p) for p in ref.model_paths(model)]
        self.pristine = {}  # observed, never selected / re-constrained: path -> original value
        self.probes = {}
        self.evals = 0
        self.pool = []  # forked states: history is a tree ("starting from any trace"), not a line

    def probe(self, k, n=1):
        self.probes[k] = self.probes.get(k, 0) + n

    # -------------------------------------------------------------- helpers

    def ref_now(self):
        return ref.run(self.model, self.h, self.ch)

    def adopt(self, tr, h):
        self.tr = tr
        self.h = h
        self.ch = gfi.np_choices(tr)

    def check_state(self, what):
        """Coherence of the live trace + provenance of observed addresses."""
        vs, r = gfi.coherence(self.tr, self.model, self.h, what)
        out = gfi.convert(vs, op=what)
        self.evals += 1
        if r is not None and not vs and not np.isfinite(r.logp):
            self.probe("left_support")
            raise Stop()
        for p, v in self.pristine.items():
            got = ref.get_path(self.ch, p)
            if got is None or not _eq_bits(got, v):
                out.append(V("observation_lost", "observed_never_selected_keeps_value",
                             f"after {what}: observed address {'/'.join(p)} was {world.to_py(v)}, now {world.to_py(got)}",
                             op=what))
                break
        return out

    def _sig_of(self, tr):
        return (world.digest(tr), str(jtu.tree_structure(tr)))

    def guard_inputs(self, what, *inputs):
        """Snapshot of the inputs of an operation; returns a checker to call after the operation:
        an operation must not modify the trace / constraint map it was given (an older trace is still
        'any trace' for a later operation)."""
        before = [self._sig_of(x) for x in inputs]

        def after():
            for i, x in enumerate(inputs):
                if self._sig_of(x) != before[i]:
                    return [V("input_mutated", "operation_leaves_its_inputs_unchanged",
                              f"{what}: input #{i} ({type(x).__name__}) was modified in place by the operation", op=what)]
            return []

        return after

    def op_fork(self, op):
        self.pool.append(dict(tr=self.tr, h=self.h, ch=copy.deepcopy(self.ch), pristine=dict(self.pristine),
                              sig=self._sig_of(self.tr)))
        if len(self.pool) > 4:
            self.pool.pop(0)
        self.probe("fork")
        return []

    def op_checkout(self, op):
        """Resume from an older trace that later operations have since used as their input."""
        if not self.pool:
            raise Skip()
        s = self.pool[op["i"] % len(self.pool)]
        self.probe("checkout")
        if self._sig_of(s["tr"]) != s["sig"] or not ref.trees_equal_bits(_f64(gfi.np_choices(s["tr"])), _f64(s["ch"])):
            return [V("input_mutated", "older_trace_unchanged_by_later_operations",
                      "a trace kept from earlier in the history changed while later operations ran on its descendants",
                      op="checkout")]
        self.tr, self.h, self.ch, self.pristine = s["tr"], s["h"], copy.deepcopy(s["ch"]), dict(s["pristine"])
        return self.check_state("checkout")

    # -------------------------------------------------------------- transitions

    def op_init(self, op):
        paths = [tuple(p) for p in op.get("paths") or []]
        if op["how"] == "simulate":
            tr = gfi.execute(op.get("cfg", "eager"), self.gf.simulate, op["key"], self.h)
            self.pristine = {}
        else:
            rr = ref.run(self.model, self.h, None, rng=np.random.default_rng(op["rseed"]))
            cons = ref.subset(rr.choices, paths)
            x = gfi.to_jnp(cons)
            unchanged = self.guard_inputs("generate", x)
            tr, w = gfi.execute(op.get("cfg", "eager"), self.gf.generate, op["key"], x, self.h)
            mut = unchanged()
            if mut:
                return mut
            self.pristine = {p: np.asarray(ref.get_path(cons, p)) for p in paths if ref.get_path(cons, p) is not None}
        self.adopt(tr, self.h)
        self.probe("init_" + op["how"])
        return self.check_state("init")

    def op_update(self, op):
        model = self.model
        h_new = self.h if op.get("h") is None else op["h"]
        paths = [tuple(p) for p in op.get("paths") or []]
        r_old = self.ref_now()
        rr = ref.run(model, h_new, None, rng=np.random.default_rng(op["rseed"]))
        cons = ref.subset(rr.choices, paths)
        paths = [p for p in paths if ref.get_path(cons, p) is not None]
        expected = ref.overlay(self.ch, cons)
        r_new = ref.run(model, h_new, expected)
        if not np.isfinite(r_new.logp):
            self.probe("skipped_out_of_support")
            raise Skip()
        x = gfi.to_jnp(cons) if paths else (None if op.get("none_arg") else {})
        api = op.get("api", "gf")
        cfg = op.get("cfg", "eager")
        if api == "trace":
            f = lambda tr, x, h: tr.update(x, h)
        elif api == "trace_noargs" and h_new == self.h:
            f = lambda tr, x, h: tr.update(x)
        else:
            f = lambda tr, x, h: self.gf.update(tr, x, h)
        unchanged = self.guard_inputs("update", self.tr, x)
        tr2, w, discard = gfi.execute_det(cfg, f, self.tr, x, h_new)
        viol = unchanged()
        switch = r_old.checks != r_new.checks
        self.probe("update")
        self.probe("update_" + api)
        if switch:
            self.probe("update_branch_switch")
        if h_new != self.h:
            self.probe("update_new_args")
        sig = dict(op="update", branch_switch=switch, combinators="+".join(progs.combinators(model)))
        vs, r2 = gfi.coherence(tr2, model, h_new, "update")
        viol += gfi.convert(vs, **sig)
        ch2 = gfi.np_choices(tr2)
        if not viol:
            for p in self.paths:
                want, got = ref.get_path(expected, p), ref.get_path(ch2, p)
                if want is None:
                    continue
                if got is None or not _eq_bits(want, got):
                    clause = "constrained_hold_new_values" if p in paths else "unconstrained_keep_old_values"
                    viol.append(V("wrong_choices", clause,
                                  f"update: address {'/'.join(p)} should be {world.to_py(want)} but is {world.to_py(got)}"
                                  f" (constrained={p in paths}, branch_switch={switch})", **sig))
                    break
        want_w = r_new.logp - r_old.logp
        if not viol and not world.close(float(w), want_w, **gfi.TOL):
            viol.append(V("wrong_weight", "weight_is_density_ratio",
                          f"update weight={float(w)} but log p(new;new args) - log p(old;old args) = {want_w} "
                          f"(branch_switch={switch})", **sig))
        if not viol:
            dch = None if discard is None else gfi.np_choices(discard)
            for p in paths:
                old_v = ref.get_path(self.ch, p)
                got = None if dch is None else ref.get_path(dch, p)
                if got is None or not _eq_bits(old_v, got):
                    viol.append(V("wrong_discard", "discard_holds_previous_visible_values",
                                  f"update: discard at {'/'.join(p)} is {world.to_py(got)} but the old visible value was "
                                  f"{world.to_py(old_v)} (branch_switch={switch})", **sig))
                    break
        if not viol and op.get("roundtrip"):
            self.probe("roundtrip")
            tr3, w3, _ = self.gf.update(tr2, discard, self.h)
            ch3 = gfi.np_choices(tr3)
            for p in self.paths:
                want, got = ref.get_path(self.ch, p), ref.get_path(ch3, p)
                if want is not None and (got is None or not _eq_bits(want, got)):
                    viol.append(V("not_invertible", "update_back_restores_choices",
                                  f"update-back with the discard: address {'/'.join(p)} was {world.to_py(want)}, restored "
                                  f"{world.to_py(got)} (branch_switch={switch})", **sig))
                    break
            if not viol and not world.close(float(w3), -float(w), **gfi.TOL):
                viol.append(V("not_invertible", "update_back_negates_weight",
                              f"update weight {float(w)}, update-back weight {float(w3)}", **sig))
        if not viol:
            for p in paths:
                self.pristine.pop(p, None)
            self.adopt(tr2, h_new)
            self.last_weight = float(w)
            viol += self.check_state("update")
        return viol

    def selected_paths(self, s):
        return [p for p in self.paths if selections.selected(p, s)]

    def op_regenerate(self, op):
        model = self.model
        s = op["sel"]
        S = set(self.selected_paths(s))
        h_new = self.h if op.get("h") is None else op["h"]
        cfg = op.get("cfg", "eager")
        r_old = self.ref_now()
        sel_obj = selections.build(s)
        script = None
        unchanged = self.guard_inputs("regenerate", self.tr)
        if cfg == "scripted":
            script = gfi.RefScript(op["key"])
            (tr2, w, discard), log = run_scripted(self.gf.regenerate, script, self.tr, sel_obj, h_new)
        else:
            tr2, w, discard = gfi.execute(cfg, self.gf.regenerate, op["key"], self.tr, sel_obj, h_new)
        mut = unchanged()
        if mut:
            return mut
        self.probe("regenerate")
        self.probe("regen_" + ("empty" if not S else "full" if S == set(self.paths) else "partial"))
        for k in progs.combinators(model):
            self.probe("regen_on_" + k)
        if any(len(p) > 1 for p in S):
            self.probe("regen_selects_into_subcall")
        sig = dict(op="regenerate", combinators="+".join(progs.combinators(model)))
        viol = []
        vs, r_new = gfi.coherence(tr2, model, h_new, "regenerate")
        viol += gfi.convert(vs, **sig)
        ch2 = gfi.np_choices(tr2)
        if viol:
            return viol
        switch = r_old.checks != r_new.checks
        if switch:
            self.probe("regen_branch_switch")
        sig["branch_switch"] = switch
        for p in self.paths:
            if p in S:
                continue
            want, got = ref.get_path(self.ch, p), ref.get_path(ch2, p)
            if want is not None and (got is None or not _eq_bits(want, got)):
                viol.append(V("wrong_choices", "unselected_bit_identical",
                              f"regenerate {selections.show(s)}: unselected address {'/'.join(p)} was {world.to_py(want)}, "
                              f"now {world.to_py(got)} (branch_switch={switch})", **sig))
                return viol
        # every selected choice is freshly drawn: a fresh continuous draw differs from the old value
        # (exact, probability 1) - also decidable without the SCRIPTED seam
        for p in S:
            old_v, new_v = ref.get_path(self.ch, p), ref.get_path(ch2, p)
            if old_v is None or new_v is None:
                continue
            kinds = {progs.DISTS[d]["kind"] for d, _ in ref.path_info(model, p)}
            if kinds == {"c"} and np.asarray(old_v).size and np.any(np.asarray(old_v) == np.asarray(new_v)):
                viol.append(V("wrong_choices", "selected_freshly_drawn",
                              f"regenerate {selections.show(s)}: selected continuous address {'/'.join(p)} kept (part of) its old "
                              f"value {world.to_py(old_v)} -> {world.to_py(new_v)}", **sig))
                return viol
        if not switch:
            d_joint = r_new.logp - r_old.logp
            sel_new = sum(x["logp"] for x in r_new.sites if x["live"] and tuple(x["path"]) in S)
            sel_old = sum(x["logp"] for x in r_old.sites if x["live"] and tuple(x["path"]) in S)
            want_w = d_joint - (sel_new - sel_old)
            if not world.close(float(w), want_w, **gfi.TOL):
                viol.append(V("wrong_weight", "weight_is_mh_ratio",
                              f"regenerate {selections.show(s)}: weight={float(w)} but change in joint log density minus change "
                              f"in selected log prior = {want_w}", **sig))
                return viol
            self.probe("regen_weight_checked")
        if not S and h_new == self.h:
            # |w| <= 1e-5: the score is recomputed, and a trace produced under another execution mode
            # (op-by-op SCRIPTED evaluation vs fused eager kernels) can differ in the last float bits
            if abs(float(w)) > 1e-5 or not ref.trees_equal_bits(_f64(self.ch), _f64(ch2)):
                viol.append(V("wrong_weight", "empty_selection_is_identity",
                              f"empty selection, unchanged args: weight={float(w)}", **sig))
                return viol
        dch = None if discard is None else gfi.np_choices(discard)
        for p in S:
            old_v = ref.get_path(self.ch, p)
            if old_v is None:
                continue
            got = None if dch is None else ref.get_path(dch, p)
            if got is None or not _eq_bits(old_v, got):
                viol.append(V("wrong_discard", "discard_holds_old_resampled_values",
                              f"regenerate {selections.show(s)}: discard at {'/'.join(p)} is {world.to_py(got)}, old value "
                              f"{world.to_py(old_v)} (branch_switch={switch})", **sig))
                return viol
        if script is not None:
            self.probe("regen_scripted")
            sel_sites = [x for x in r_new.sites if tuple(x["path"]) in S]
            un_ref, un_lanes = gfi.match_sites(sel_sites, script.lanes, script=script)
            if un_ref:
                viol.append(V("routing", "selected_drawn_from_conditional_prior",
                              f"regenerate {selections.show(s)}: a selected choice was not freshly drawn at a site consulted "
                              "with the reference's conditional-prior parameters: " + gfi.site_str(un_ref[0]), **sig))
                return viol
            if len(un_lanes) > r_new.hidden_lanes:
                viol.append(V("routing", "only_selection_resampled",
                              f"regenerate {selections.show(s)}: {len(un_lanes)} consulted lanes are not selected leaves of the "
                              f"trace (at most {r_new.hidden_lanes} hidden Cond-branch draws expected)", **sig))
                return viol
        for p in S:
            self.pristine.pop(p, None)
        self.adopt(tr2, h_new)
        return self.check_state("regenerate")

    def op_kernel(self, op):
        from genjax.inference import mh, mala, hmc

        s = op["sel"]
        S = set(self.selected_paths(s))
        sel_obj = selections.build(s)
        kind = op["op"]
        if kind in ("mala", "hmc"):
            # gradient moves need real-line supports for the selected leaves
            for p in S:
                for d, _ in ref.path_info(self.model, p):
                    if d not in progs.CONT_REAL_LINE and d != "mvn":
                        raise Skip()
            if not S:
                raise Skip()
        if kind == "mh":
            k = lambda tr: mh(tr, sel_obj)
        elif kind == "mala":
            k = lambda tr: mala(tr, sel_obj, op["step"])
        else:
            k = lambda tr: hmc(tr, sel_obj, op["step"], op["n"])
        cfg = op.get("cfg", "eager")
        unchanged = self.guard_inputs(kind, self.tr)
        tr2 = gfi.execute(cfg, k, op["key"], self.tr)
        mut = unchanged()
        if mut:
            return mut
        self.probe(kind)
        ch2 = gfi.np_choices(tr2)
        moved = not ref.trees_equal_bits(_f64(self.ch), _f64(ch2))
        self.probe(kind + ("_accepted" if moved else "_rejected_or_same"))
        sig = dict(op=kind, combinators="+".join(progs.combinators(self.model)))
        for p in self.paths:
            if p in S:
                continue
            want, got = ref.get_path(self.ch, p), ref.get_path(ch2, p)
            if want is not None and (got is None or not _eq_bits(want, got)):
                return [V("wrong_choices", "kernel_leaves_unselected_untouched",
                          f"{kind} {selections.show(s)}: unselected address {'/'.join(p)} was {world.to_py(want)}, now "
                          f"{world.to_py(got)}", **sig)]
        for p in S:
            self.pristine.pop(p, None)
        self.adopt(tr2, self.h)
        return self.check_state(kind)

    def op_jit_roundtrip(self, op):
        tr2 = jax.jit(lambda t: t)(self.tr)
        self.probe("jit_roundtrip")
        if not world.bit_equal(tr2, self.tr):
            return [V("incoherent", "jit_roundtrip_identity", "a trace passed through jax.jit changed", op="jit_roundtrip")]
        self.adopt(tr2, self.h)
        return self.check_state("jit_roundtrip")

    def op_vectorise(self, op):
        """Build an N-lane vectorised trace of the same program, then index / resample one lane out."""
        from genjax.inference.smc import resample_vectorized_trace

        n = op["n"]
        vtr = gpjax.seed(gpjax.modular_vmap(self.gf.simulate, in_axes=None, axis_size=n))(
            jax.random.key(op["key"]), self.h)
        if op["how"] == "index":
            i = op["i"] % n
            lane = jtu.tree_map(lambda x: x[i], vtr)
            self.probe("lane_index")
        else:
            lw = jnp.asarray(op["logw"][:n], dtype=jnp.float32)
            rv = gpjax.seed(lambda: resample_vectorized_trace(vtr, lw, n, method=op["method"]))(
                jax.random.key(op["key"] + 1))
            # every resampled lane must be an exact copy of one source lane (all fields from one index)
            src_ch = gfi.np_choices(vtr)
            out = []
            for j in range(n):
                lane_j = jtu.tree_map(lambda x: x[j], rv)
                found = False
                for i in range(n):
                    if world.bit_equal(lane_j, jtu.tree_map(lambda x: x[i], vtr)):
                        found = True
                        break
                if not found:
                    return [V("incoherent", "resampled_lane_is_copy_of_one_source",
                              f"resample_vectorized_trace: output lane {j} is not a copy of any input lane", op="resample")]
            lane = jtu.tree_map(lambda x: x[op["i"] % n], rv)
            self.probe("lane_resample")
        self.pristine = {}
        self.adopt(lane, self.h)
        return self.check_state("vectorise/" + op["how"])

    def op_telescope(self, op):
        """Two different update paths between the same endpoints must have the same total weight."""
        model = self.model
        h_mid, h_fin = op["h_mid"], op["h_fin"]
        pa = [tuple(p) for p in op["paths_fin"]]
        pm = [tuple(p) for p in op["paths_mid"]]
        rr_fin = ref.run(model, h_fin, None, rng=np.random.default_rng(op["rseed"]))
        rr_mid = ref.run(model, h_mid, None, rng=np.random.default_rng(op["rseed"] + 1))
        cons_fin = ref.subset(rr_fin.choices, pa)
        cons_mid = ref.subset(rr_mid.choices, pm)
        final = ref.overlay(self.ch, cons_fin)
        mid = ref.overlay(self.ch, cons_mid)
        r0 = self.ref_now()
        if not all(np.isfinite(ref.run(model, hh, cc).logp) for hh, cc in ((h_fin, final), (h_mid, mid))):
            raise Skip()
        # path A: direct
        trA, wA, _ = self.gf.update(self.tr, gfi.to_jnp(cons_fin) if pa else {}, h_fin)
        # path B: via the intermediate state, then constrain everything that differs back to `final`
        trM, w1, _ = self.gf.update(self.tr, gfi.to_jnp(cons_mid) if pm else {}, h_mid)
        back = ref.subset(final, list(set(pa) | set(pm)))
        trB, w2, _ = self.gf.update(trM, gfi.to_jnp(back) if back else {}, h_fin)
        self.probe("telescope")
        sig = dict(op="telescope", combinators="+".join(progs.combinators(model)))
        chA, chB = gfi.np_choices(trA), gfi.np_choices(trB)
        r_m = ref.run(model, h_mid, gfi.np_choices(trM))
        r_a = ref.run(model, h_fin, chA)
        switch = (r0.checks != r_m.checks) or (r_m.checks != r_a.checks)
        sig["branch_switch"] = switch
        if not ref.trees_equal_bits(_f64(chA), _f64(chB)):
            return [V("path_dependent", "same_endpoint_choices",
                      f"two update paths to the same (choices, args) ended in different choice maps (branch_switch={switch})", **sig)]
        if not world.close(float(wA), float(w1) + float(w2), **gfi.TOL):
            return [V("path_dependent", "update_weights_telescope",
                      f"direct update weight {float(wA)} != {float(w1)} + {float(w2)} via an intermediate state "
                      f"(branch_switch={switch})", **sig)]
        want = r_a.logp - r0.logp
        if not world.close(float(wA), want, **gfi.TOL):
            return [V("wrong_weight", "weight_is_density_ratio",
                      f"update weight={float(wA)} but log-density difference of the endpoints is {want} (branch_switch={switch})", **sig)]
        for p in set(pa) | set(pm):
            self.pristine.pop(p, None)
        self.adopt(trB, h_fin)
        return self.check_state("telescope")

    def apply(self, op):
        k = op["op"]
        if k == "init":
            return self.op_init(op)
        if self.tr is None:
            raise Skip()
        if k == "update":
            return self.op_update(op)
        if k == "regenerate":
            return self.op_regenerate(op)
        if k in ("mh", "mala", "hmc"):
            return self.op_kernel(op)
        if k == "jit_roundtrip":
            return self.op_jit_roundtrip(op)
        if k == "vectorise":
            return self.op_vectorise(op)
        if k == "telescope":
            return self.op_telescope(op)
        if k == "fork":
            return self.op_fork(op)
        if k == "checkout":
            return self.op_checkout(op)
        raise ValueError(k)


def _f64(t):
    if isinstance(t, dict):
        return {k: _f64(v) for k, v in t.items()}
    return np.asarray(t).astype(np.float64)


# ------------------------------------------------------------------ faults between transitions


def do_fault(op, client):
    """A failing neighbour operation on the same program / trace. Returns fired fault kind or None."""
    k = op["kind"]
    model, gf = client.model, client.gf
    try:
        if k == "assess_missing":
            ch = dict(client.ch)
            ch.pop(sorted(ch)[0])
            gf.assess(gfi.to_jnp(ch), client.h)
        elif k == "exc_site":
            f = {"at": op["at"], "n": 0}
            bad = progs.build(model, fault=f)
            m = op["method"]
            if m == "simulate":
                gpjax.seed(bad.simulate)(jax.random.key(op["key"]), client.h)
            elif m == "assess":
                bad.assess(gfi.to_jnp(client.ch), client.h)
            elif m == "generate":
                gpjax.seed(bad.generate)(jax.random.key(op["key"]), gfi.to_jnp(client.ch), client.h)
            elif m == "update":
                bad.update(client.tr, {}, client.h)
            else:
                gpjax.seed(bad.regenerate)(jax.random.key(op["key"]), client.tr, selections.build({"t": "all"}), client.h)
        elif k == "bad_selection":
            gf.regenerate(client.tr, "not a selection", client.h)
        elif k == "flush":
            world.fault_flush()
            return "flush"
        elif k == "reenter":
            # a model body that itself performs a complete GFI operation of another client
            from genjax import gen, normal

            inner_gf, inner_h = client.gf, client.h

            @gen
            def outer(x):
                a = normal(x, 1.0) @ "a"
                tr = inner_gf.simulate(inner_h)
                b = normal(a + 0.0 * tr.get_score(), 1.0) @ "b"
                return b

            tr = gpjax.seed(outer.simulate)(jax.random.key(op["key"]), 0.1)
            lp, _ = outer.assess(tr.get_choices(), 0.1)
            if not world.close(float(lp), -float(tr.get_score()), 1e-4, 1e-4):
                raise AssertionError("re-entrant outer trace incoherent")
            return "reenter"
    except AssertionError:
        raise
    except BaseException as e:
        if isinstance(e, (KeyboardInterrupt, SystemExit)):
            raise
        return "exc@site" if k == "exc_site" else "usererr"
    return None


FAULT_KINDS = ["assess_missing", "exc_site", "exc_site", "bad_selection", "flush", "reenter"]


def gen_fault(rng, model):
    k = rng.choice(FAULT_KINDS)
    op = {"op": "fault", "kind": k, "key": rng.randint(0, 2**30)}
    if k == "exc_site":
        op["at"] = rng.randrange(max(progs.n_blocks(model), 1))
        op["method"] = rng.choice(["simulate", "assess", "generate", "update", "update", "regenerate", "regenerate"])
    return op


def run_history(case, fault_free_required=False):
    """Execute case = {model, h, ops}; returns the standard run_case result dict."""
    client = Client(case["model"], case["h"])
    viol = []
    faults = {}
    hist = []
    steps = 0
    after_fault = False
    for op in case["ops"]:
        steps += 1
        try:
            if op["op"] == "fault":
                fired = do_fault(op, client)
                if fired:
                    faults[fired] = faults.get(fired, 0) + 1
                after_fault = True
                hist.append("fault:" + op["kind"])
                if not world.globals_clean():
                    client.probe("leak_seen")
                # durable state (the live trace) must still be coherent right after the failed call
                if client.tr is not None:
                    viol += client.check_state("after_fault")
                continue
            vs = client.apply(op)
            viol += vs
            hist.append(op["op"])
            if after_fault and not vs:
                client.probe("recovered_after_fault")
            after_fault = False
        except Skip:
            hist.append("skip")
            client.probe("skipped")
        except Stop:
            hist.append("stop")
            break
        except Exception as e:
            viol.append(gfi.exc_violation(e, op["op"], cfg=op.get("cfg"),
                                          combinators="+".join(progs.combinators(case["model"]))))
        if viol:
            break
    comb = progs.combinators(case["model"])
    return {"violations": viol, "steps": steps, "faults": faults, "probes": client.probes,
            "evals": client.evals, "key": progs.shape_key(case["model"]) + "|" + ",".join(hist),
            "nontrivial": bool(comb) or bool(faults)}


def shrink_history(case):
    ops = case["ops"]
    for i in range(len(ops)):
        if len(ops) > 1 and not (i == 0 and ops[0]["op"] == "init"):
            c = copy.deepcopy(case)
            del c["ops"][i]
            yield c
    for m in gfi.shrink_model(case["model"]):
        c = copy.deepcopy(case)
        c["model"] = m
        valid = {tuple(p) for p in ref.model_paths(m)}
        for o in c["ops"]:
            for k in ("paths", "paths_fin", "paths_mid"):
                if o.get(k):
                    o[k] = [p for p in o[k] if tuple(p) in valid]
            if "at" in o:
                o["at"] = min(o["at"], max(progs.n_blocks(m) - 1, 0))
        yield c
    for i, o in enumerate(ops):
        if o.get("cfg") not in (None, "eager"):
            c = copy.deepcopy(case)
            c["ops"][i]["cfg"] = "eager"
            yield c
        if o.get("paths"):
            for j in range(len(o["paths"])):
                c = copy.deepcopy(case)
                del c["ops"][i]["paths"][j]
                yield c
        if o.get("sel"):
            for s2 in selections.shrink(o["sel"]):
                c = copy.deepcopy(case)
                c["ops"][i]["sel"] = s2
                yield c
        if o.get("roundtrip"):
            c = copy.deepcopy(case)
            c["ops"][i]["roundtrip"] = False
            yield c
        if o.get("h") is not None:
            c = copy.deepcopy(case)
            c["ops"][i]["h"] = None
            yield c
